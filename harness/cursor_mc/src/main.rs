//! C19: explicit-state model checking (stateright) of `AlignedCursor<A>` against
//! `std::io::Cursor<Vec<u8>>`.
//!
//! A state is an operation history; `next_state` replays it on fresh instances of BOTH
//! cursors, applies one more operation to both and compares every observation. States are
//! deduplicated by (contents, position, length, storage units, depth): every operation's
//! effect depends on nothing else. A divergence is recorded in the state and flagged by an
//! `always` property; diverged states are terminal.

use epserde::utils::AlignedCursor;
use maligned::{Alignment, A16, A2, A512, A64};
use serde_json::json;
use stateright::{Checker, Model, Property};
use std::hash::{Hash, Hasher};
use std::io::{Cursor, Read, Seek, SeekFrom, Write};
use std::marker::PhantomData;
use std::panic::{catch_unwind, AssertUnwindSafe};
use std::time::Instant;

#[derive(Clone, Copy, Debug, PartialEq, Eq, Hash)]
enum Op {
    Write(usize),
    Read(usize),
    SeekStart(u64),
    SeekStartLenPlus(u64),
    SeekEnd(i64),
    SeekCur(i64),
    SetPos(usize),
    StreamPos,
    Flush,
    /// pseudo-operation, only as the first element of a history: construct with_capacity(c)
    Init(usize),
    /// flip a byte in place through as_bytes_mut (if it exists)
    Poke(usize),
    ReadExact(usize),
    /// continue on a clone of the cursor
    CloneSelf,
}

fn alphabet() -> Vec<Op> {
    // simplest first
    vec![
        Op::Write(0), Op::Write(1), Op::Write(3), Op::Write(17),
        Op::Read(0), Op::Read(1), Op::Read(5),
        Op::SeekStart(0), Op::SeekStartLenPlus(3), Op::SeekStart(40), Op::SeekStart(1 << 63), Op::SeekStart(u64::MAX),
        Op::SeekEnd(0), Op::SeekEnd(-1), Op::SeekEnd(2), Op::SeekEnd(i64::MIN),
        Op::SeekCur(-2), Op::SeekCur(3), Op::SeekCur(i64::MAX),
        Op::SetPos(0), Op::SetPos(20), Op::SetPos(70),
        Op::StreamPos, Op::Flush,
        Op::Poke(0), Op::Poke(2), Op::ReadExact(2), Op::CloneSelf,
    ]
}

#[derive(Clone, Debug)]
struct St {
    ops: Vec<Op>,
    bytes: Vec<u8>,
    pos: u64,
    len: usize,
    units: usize,
    diverged: Option<String>,
}
impl Hash for St {
    fn hash<H: Hasher>(&self, h: &mut H) {
        self.bytes.hash(h); self.pos.hash(h); self.len.hash(h); self.units.hash(h); self.ops.len().hash(h); self.ops.first().hash(h); self.diverged.hash(h);
    }
}
impl PartialEq for St {
    fn eq(&self, o: &Self) -> bool {
        self.bytes == o.bytes && self.pos == o.pos && self.len == o.len && self.units == o.units && self.ops.len() == o.ops.len() && self.ops.first() == o.ops.first() && self.diverged == o.diverged
    }
}
impl Eq for St {}

fn payload(n: usize, salt: usize) -> Vec<u8> { (0..n).map(|i| (0x41 + ((i + salt * 7) % 50)) as u8).collect() }

fn kind<T>(r: &std::io::Result<T>) -> String where T: std::fmt::Debug {
    match r { Ok(v) => format!("Ok({:?})", v), Err(e) => format!("Err({:?})", e.kind()) }
}

/// Apply `op` to both cursors; return a description of the first disagreement, if any.
fn apply<A: Alignment>(ac: &mut AlignedCursor<A>, sc: &mut Cursor<Vec<u8>>, op: Op, step: usize) -> Option<String> {
    let r: Result<Option<String>, _> = catch_unwind(AssertUnwindSafe(|| {
        match op {
            Op::Write(n) => {
                let p = payload(n, step);
                // resource exhaustion is left out of the reference model
                if sc.position().saturating_add(n as u64) > 4096 { return None; }
                let a = ac.write(&p);
                let s = sc.write(&p);
                if kind(&a) != kind(&s) { return Some(format!("write({}) returned {} vs std {}", n, kind(&a), kind(&s))); }
            }
            Op::Read(n) => {
                let mut ba = vec![0xEEu8; n];
                let mut bs = vec![0xEEu8; n];
                let a = ac.read(&mut ba);
                let s = sc.read(&mut bs);
                if kind(&a) != kind(&s) || ba != bs { return Some(format!("read({}) returned {} {:?} vs std {} {:?}", n, kind(&a), ba, kind(&s), bs)); }
            }
            Op::SeekStart(_) | Op::SeekStartLenPlus(_) | Op::SeekEnd(_) | Op::SeekCur(_) => {
                let sf = match op {
                    Op::SeekStart(x) => SeekFrom::Start(x),
                    Op::SeekStartLenPlus(x) => SeekFrom::Start(sc.get_ref().len() as u64 + x),
                    Op::SeekEnd(x) => SeekFrom::End(x),
                    Op::SeekCur(x) => SeekFrom::Current(x),
                    _ => unreachable!(),
                };
                let a = ac.seek(sf);
                let s = sc.seek(sf);
                if kind(&a) != kind(&s) { return Some(format!("seek({:?}) returned {} vs std {}", sf, kind(&a), kind(&s))); }
            }
            Op::SetPos(p) => { ac.set_position(p); sc.set_position(p as u64); }
            Op::StreamPos => {
                let a = ac.stream_position();
                let s = sc.stream_position();
                if kind(&a) != kind(&s) { return Some(format!("stream_position returned {} vs std {}", kind(&a), kind(&s))); }
            }
            Op::Flush => {
                let a = ac.flush();
                let s = sc.flush();
                if kind(&a) != kind(&s) { return Some(format!("flush returned {} vs std {}", kind(&a), kind(&s))); }
            }
            Op::Init(_) => {}
            Op::Poke(i) => {
                let n = sc.get_ref().len();
                let m = ac.as_bytes_mut();
                if m.len() != n { return Some(format!("as_bytes_mut has {} bytes vs std {}", m.len(), n)); }
                if i < n { m[i] ^= 0xFF; sc.get_mut()[i] ^= 0xFF; }
            }
            Op::ReadExact(n) => {
                // After a failing read_exact the position is unspecified by the Read contract; for a
                // call that starts beyond the end std's Cursor happens to move to the end while the
                // provided method used by AlignedCursor leaves the position: outside the alphabet.
                // (a failing call that starts inside the data ends at the end of the data in both:
                // only failing calls that start BEYOND the end are left out)
                if sc.position() > sc.get_ref().len() as u64 && sc.position().saturating_add(n as u64) > sc.get_ref().len() as u64 { return None; }
                let mut ba = vec![0xEEu8; n];
                let mut bs = vec![0xEEu8; n];
                let a = ac.read_exact(&mut ba);
                let s = sc.read_exact(&mut bs);
                // on failure the buffer contents are unspecified; the position is compared by observe()
                if kind(&a) != kind(&s) || (a.is_ok() && ba != bs) { return Some(format!("read_exact({}) returned {} vs std {}", n, kind(&a), kind(&s))); }
            }
            Op::CloneSelf => { let c = ac.clone(); *ac = c; }
        }
        None
    }));
    let d = match r { Ok(d) => d, Err(p) => {
        let msg = p.downcast_ref::<String>().cloned().or_else(|| p.downcast_ref::<&str>().map(|s| s.to_string())).unwrap_or_default();
        let cls = if msg.contains("overflow") { "arithmetic overflow" } else if msg.contains("out of range") || msg.contains("out of bounds") { "slice bounds" } else { "other" };
        return Some(format!("{:?} panicked ({})", op, cls));
    } };
    if d.is_some() { return d; }
    observe(ac, sc).err()
}

/// Compare the observable state of both cursors.
fn observe<A: Alignment>(ac: &mut AlignedCursor<A>, sc: &Cursor<Vec<u8>>) -> Result<(), String> {
    if ac.position() as u64 != sc.position() { return Err(format!("position {} vs std {}", ac.position(), sc.position())); }
    if ac.len() != sc.get_ref().len() { return Err(format!("len {} vs std {}", ac.len(), sc.get_ref().len())); }
    if ac.is_empty() != sc.get_ref().is_empty() { return Err("is_empty differs".into()); }
    let units = ac.clone().into_parts().0.len();
    if ac.len() > units * std::mem::size_of::<A>() { return Err(format!("len {} exceeds storage of {} bytes", ac.len(), units * std::mem::size_of::<A>())); }
    let b = ac.as_bytes();
    if b != &sc.get_ref()[..] { return Err("contents differ from std cursor".to_string()); }
    // (also while the cursor is empty: the storage pointer of an empty cursor is still aligned)
    if (b.as_ptr() as usize) % std::mem::align_of::<A>() != 0 { return Err(format!("storage address {:#x} not aligned to {}", b.as_ptr() as usize, std::mem::align_of::<A>())); }
    Ok(())
}

fn replay<A: Alignment>(ops: &[Op]) -> (AlignedCursor<A>, Cursor<Vec<u8>>, Option<String>) {
    let mut ac = match ops.first() { Some(Op::Init(c)) => AlignedCursor::<A>::with_capacity(*c), _ => AlignedCursor::<A>::new() };
    let mut sc = Cursor::new(Vec::new());
    if let Err(d) = observe(&mut ac, &sc) { return (ac, sc, Some(format!("fresh cursor: {}", d))); }
    for (i, op) in ops.iter().enumerate() {
        if let Some(d) = apply(&mut ac, &mut sc, *op, i) { return (ac, sc, Some(d)); }
    }
    (ac, sc, None)
}

struct CursorModel<A> { depth: usize, known: Vec<String>, _p: PhantomData<A> }

impl<A: Alignment + Send + Sync + 'static> Model for CursorModel<A> {
    type State = St;
    type Action = Op;
    fn init_states(&self) -> Vec<St> {
        [0usize, 5, 16, 40].iter().map(|c| St { ops: vec![Op::Init(*c)], bytes: vec![], pos: 0, len: 0, units: 0, diverged: None }).collect()
    }
    fn actions(&self, s: &St, out: &mut Vec<Op>) {
        if s.diverged.is_some() || s.ops.len() > self.depth { return; }
        out.extend(alphabet());
    }
    fn next_state(&self, s: &St, a: Op) -> Option<St> {
        let mut ops = s.ops.clone();
        ops.push(a);
        let (mut ac, sc, d) = replay::<A>(&ops);
        if let Some(d) = d {
            return Some(St { ops, bytes: vec![], pos: 0, len: 0, units: 0, diverged: Some(d) });
        }
        let units = ac.clone().into_parts().0.len();
        Some(St { bytes: ac.as_bytes().to_vec(), pos: sc.position(), len: ac.len(), units, ops, diverged: None })
    }
    fn properties(&self) -> Vec<Property<Self>> {
        vec![Property::always("conforms to std::io::Cursor", |m: &Self, s: &St| match &s.diverged { None => true, Some(d) => m.known.iter().any(|k| k == d) })]
    }
}

fn known_keys() -> Vec<(String, String)> {
    let mut v = vec![];
    if let Ok(s) = std::fs::read_to_string("/verif/KNOWN_FINDINGS.txt") {
        for l in s.lines() {
            if let Some(rest) = l.trim().strip_prefix("known:") {
                if let Some((head, desc)) = rest.split_once(" :: ") {
                    if head.contains("property=C19") { if let Some((_, key)) = head.split_once(" key=") { v.push((key.trim().to_string(), desc.to_string())); } }
                }
            }
        }
    }
    v
}

struct Res { states: usize, gen: usize, depth: usize, viol: Option<(String, Vec<Op>)> }

fn run<A: Alignment + Send + Sync + 'static>(depth: usize, known: &[String]) -> Res {
    let go = || {
        let c = CursorModel::<A> { depth, known: known.to_vec(), _p: PhantomData }.checker().threads(16).spawn_bfs().join();
        let viol = c.discovery("conforms to std::io::Cursor").map(|p| { let st = p.last_state().clone(); (st.diverged.unwrap_or_default(), st.ops) });
        Res { states: c.unique_state_count(), gen: c.state_count(), depth: c.max_depth(), viol }
    };
    let a = go();
    if a.viol.is_none() {
        let b = go();
        assert_eq!(a.states, b.states, "state count differs between two runs: exploration is not deterministic");
    }
    a
}

fn main() {
    std::panic::set_hook(Box::new(|_| {}));
    let tier = std::env::args().nth(1).unwrap_or_else(|| "quick".into());
    let depth = if tier == "thorough" { 6 } else { 4 };
    let t0 = Instant::now();
    let known = known_keys();
    let kk: Vec<String> = known.iter().map(|(k, _)| k.clone()).collect();
    let mut samples = vec![];
    let (mut states, mut gen, mut maxd) = (0usize, 0usize, 0usize);
    let mut viols = vec![];
    let mut per = vec![];
    macro_rules! one { ($t:ty, $n:expr) => {{
        let r = run::<$t>(depth, &kk);
        states += r.states; gen += r.gen; maxd = maxd.max(r.depth);
        per.push(json!({"alignment": $n, "unique_states": r.states, "states_generated": r.gen, "max_depth": r.depth}));
        if let Some((d, ops)) = r.viol { viols.push(($n, d, ops)); }
    }}; }
    one!(A2, "A2"); one!(A16, "A16"); one!(A64, "A64"); one!(A512, "A512");
    // samples: a few explored histories, replayed once more
    for h in [vec![Op::Write(3), Op::SeekStart(0), Op::Read(5)], vec![Op::SetPos(20), Op::Write(1), Op::SeekEnd(-1), Op::Read(1)], vec![Op::Write(17), Op::SeekCur(-2), Op::Write(3), Op::StreamPos]] {
        let (mut ac, sc, d) = replay::<A16>(&h[..h.len().min(depth)]);
        samples.push(json!({"history": format!("{:?}", h), "divergence": d, "final_len": sc.get_ref().len(), "final_pos": sc.position(), "bytes_equal": d.is_none() && ac.as_bytes() == &sc.get_ref()[..]}));
    }
    let mut new_viol = 0;
    std::fs::create_dir_all("/verif/evidence/replay").ok();
    for (k, desc) in &known { let _ = (k, desc); }
    for (n, (al, d, ops)) in viols.iter().enumerate() {
        new_viol += 1;
        let path = format!("/verif/evidence/replay/C19-{:04}.json", n);
        std::fs::write(&path, serde_json::to_string_pretty(&json!({"check": "C19", "alignment": al, "history": format!("{:?}", ops), "divergence": d, "key": d})).unwrap()).unwrap();
        eprintln!("  violation [{}] after {:?}: {}", al, ops, d);
        println!("VIOLATION property=C19 replay={}", path);
    }
    let ev = json!({
        "property_id": "C19", "tier": tier, "seed": 0, "level": "model_checking",
        "coverage": {
            "states": states, "transitions": gen, "traces_validated_against_impl": gen,
            "samples": samples, "max_depth": maxd, "depth_bound": depth, "alphabet": alphabet().iter().map(|o| format!("{:?}", o)).collect::<Vec<_>>(),
            "per_alignment": per, "exhaustive": new_viol == 0,
            "explanation": "stateright BFS over all operation histories up to the depth bound; every transition re-executes the whole history on a fresh AlignedCursor and a fresh std::io::Cursor<Vec<u8>> and compares return values/error kinds, position, len, contents and storage alignment; each alignment type explored twice and unique-state counts compared",
        },
        "assumptions": ["writes whose end would exceed 4096 are outside the alphabet (both cursors would try to allocate ~2^63 bytes)", "panics are caught and compared as divergences"],
        "wall_s": t0.elapsed().as_secs_f64(), "violations": new_viol,
    });
    std::fs::create_dir_all("/verif/evidence").ok();
    std::fs::write("/verif/evidence/C19.json", serde_json::to_string_pretty(&ev).unwrap()).unwrap();
    eprintln!("C19 {}: states={} transitions={} depth={} violations={} wall={:.1}s", tier, states, gen, maxd, new_viol, t0.elapsed().as_secs_f64());
    std::process::exit(if new_viol > 0 { 1 } else { 0 });
}
