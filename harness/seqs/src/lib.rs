//! C16: slices and exact-size iterators serialize exactly like the vector.
//! One monomorphic `SeqOps` implementation per element type (macro-generated, so that no
//! higher-ranked bounds are needed); the check itself is ordinary code over `&dyn SeqOps`.

use core::num::*;
use core::ops::RangeTo;
use epserde::prelude::*;
use serde_json::json;
use udefs::*;
use vcore::checks::{build as _unused_build, vdesc};
use vcore::cx::*;
use vcore::dom::*;
use vcore::env::*;
use vcore::model::*;
use vcore::ops::{err_kind, Out};

#[derive(Clone, Copy, Debug, PartialEq, Eq)]
pub enum Src { Vec, Slice, Iter }
#[derive(Clone, Copy, Debug, PartialEq, Eq)]
pub enum Ctx { Alone, G1, G2First, G2Second, GEOne, Nested }
pub const CTXS: [Ctx; 6] = [Ctx::Alone, Ctx::G1, Ctx::G2First, Ctx::G2Second, Ctx::GEOne, Ctx::Nested];

/// An exact-size iterator that lies about its length.
pub struct Liar<'a, T> { pub inner: std::slice::Iter<'a, T>, pub announce: usize }
impl<'a, T> Iterator for Liar<'a, T> { type Item = &'a T; fn next(&mut self) -> Option<&'a T> { self.inner.next() } fn size_hint(&self) -> (usize, Option<usize>) { (self.announce, Some(self.announce)) } }
impl<'a, T> ExactSizeIterator for Liar<'a, T> { fn len(&self) -> usize { self.announce } }

/// Honest about `len()`, but with the default (loose) `size_hint`.
pub struct LooseHint<'a, T> { pub inner: std::slice::Iter<'a, T> }
impl<'a, T> Iterator for LooseHint<'a, T> { type Item = &'a T; fn next(&mut self) -> Option<&'a T> { self.inner.next() } }
impl<'a, T> ExactSizeIterator for LooseHint<'a, T> { fn len(&self) -> usize { self.inner.len() } }
/// Announces `delta` items more than it has, and keeps doing so while it is consumed
/// (`len()` tracks what is left).
pub struct Tracking<'a, T> { pub inner: std::slice::Iter<'a, T>, pub delta: usize }
impl<'a, T> Iterator for Tracking<'a, T> { type Item = &'a T; fn next(&mut self) -> Option<&'a T> { self.inner.next() } fn size_hint(&self) -> (usize, Option<usize>) { let n = self.inner.len() + self.delta; (n, Some(n)) } }
impl<'a, T> ExactSizeIterator for Tracking<'a, T> { fn len(&self) -> usize { self.inner.len() + self.delta } }

pub trait SeqOps {
    /// The standalone stream of value i from source `src` through `serialize_with_schema`, with
    /// its rows.
    fn ser_schema(&self, i: usize, src: Src) -> Out<(Vec<u8>, Vec<(String, usize, usize, usize)>)>;
    /// Standalone streams of two unusual exact-size iterators over value i: one honest about
    /// `len()` with the default `size_hint`, one whose `len()` tracks the items left plus 2.
    fn odd_iterators(&self, i: usize) -> Vec<(&'static str, Out<usize>, Vec<u8>)>;
    fn elem_ty(&self) -> Ty;
    fn has_iter(&self) -> bool;
    fn build(&self, cap: usize) -> usize;
    /// Append value i repeated k times to the domain; returns its index.
    fn add_repeated(&self, i: usize, k: usize) -> usize;
    fn val(&self, i: usize) -> Val;
    fn owned(&self, i: usize) -> Vec<usize>;
    /// Serialize value i from source kind `src` in context `ctx` through a scripted writer.
    fn ser(&self, i: usize, src: Src, ctx: Ctx, w: &mut ScriptWriter) -> Out<usize>;
    /// Deserialize as the Vec-typed context: (full, eps) abstract values of the sequence field.
    fn deser(&self, bytes: &[u8], ctx: Ctx) -> (Out<Val>, Out<Val>);
    /// Padding mask (true = unspecified padding byte inside a zero-copy image) of the stream
    /// of value i in context `ctx`, from the reference encoder.
    fn mask(&self, i: usize, ctx: Ctx) -> Vec<bool>;
    /// Serialize a lying iterator over value i announcing `announce` items.
    fn liar(&self, i: usize, announce: usize, ctx: Ctx) -> Out<usize>;
    /// Store value i, load it back (loader 1 `load_mem`, 3 `mmap`) as `MemCase<&[T]>`, then
    /// serialize the LOADED structure again through a scripted writer with deviation `dev`
    /// (None: only count the choice points): (choice points, attempts to free the borrowed
    /// slice, backing region unchanged).
    fn reserialize_loaded(&self, i: usize, loader: u8, dev: Option<(usize, u8)>) -> Out<(usize, usize, bool)>;
    /// Number of bytes that `Vec<T>::deserialize_full` consumes from `bytes`.
    fn full_consumed(&self, bytes: &[u8]) -> Out<usize>;
    /// Standalone stream of a lying iterator over value i announcing `announce` items.
    fn liar_stream(&self, i: usize, announce: usize) -> (Out<usize>, Vec<u8>);
    /// (label, header hashes of a type mentioning the slice / iterator wrapper, header hashes
    /// of the same type with the vector in its place)
    fn wrapper_hashes(&self) -> Vec<(&'static str, (u64, u64), (u64, u64))>;
    /// `vec![&v[..], &v[..]]` (a vector of slice references) serialized, then read back as a
    /// vector of vectors in both modes; also the hash words of the two streams.
    fn nested_slices(&self, i: usize) -> Out<(Val, Val, [u8; 16], [u8; 16])>;
}

fn hp<X: TypeHash + AlignHash>() -> (u64, u64) {
    use core::hash::Hasher;
    let mut th = xxhash_rust::xxh3::Xxh3::new();
    X::type_hash(&mut th);
    let mut ah = xxhash_rust::xxh3::Xxh3::new();
    X::align_hash(&mut ah, &mut 0);
    (th.finish(), ah.finish())
}

macro_rules! common_wrappers {
    ($t:ty) => {
        vec![
            ("&[T] / Vec<T>", hp::<&[$t]>(), hp::<Vec<$t>>()),
            ("Vec<&[T]> / Vec<Vec<T>>", hp::<Vec<&[$t]>>(), hp::<Vec<Vec<$t>>>()),
            ("Option<&[T]> / Option<Vec<T>>", hp::<Option<&[$t]>>(), hp::<Option<Vec<$t>>>()),
            ("&[&[T]] / Vec<Vec<T>>", hp::<&[&[$t]]>(), hp::<Vec<Vec<$t>>>()),
            ("[&[T]; 2] / [Vec<T>; 2]", hp::<[&[$t]; 2]>(), hp::<[Vec<$t>; 2]>()),
            ("Box<[&[T]]> / Box<[Vec<T>]>", hp::<Box<[&[$t]]>>(), hp::<Box<[Vec<$t>]>>()),
            ("G1<&[T]> / G1<Vec<T>>", hp::<G1<&[$t]>>(), hp::<G1<Vec<$t>>>()),
            ("GE<&[T], Vec<u8>> / GE<Vec<T>, Vec<u8>>", hp::<GE<&[$t], Vec<u8>>>(), hp::<GE<Vec<$t>, Vec<u8>>>()),
        ]
    };
}

macro_rules! nested_slices {
    ($t:ty, $v:expr) => {{
        let v: &Vec<$t> = $v;
        o3(guarded(|| -> Result<(Val, Val, [u8; 16], [u8; 16]), String> {
            let outer: Vec<&[$t]> = vec![&v[..], &v[..]];
            let mut b: Vec<u8> = Vec::new();
            outer.serialize(&mut b).map_err(|e| format!("ser: {:?}", e))?;
            let mut vb: Vec<u8> = Vec::new();
            vec![v.clone(), v.clone()].serialize(&mut vb).map_err(|e| format!("ser vec: {:?}", e))?;
            let mut cur = std::io::Cursor::new(&b[..]);
            let full = <Vec<Vec<$t>>>::deserialize_full(&mut cur).map_err(|e| format!("full: {}", err_kind(&e)))?.to_val();
            let mut arena = Arena::new(b.len() + 4096);
            let placed = arena.place(0, &b);
            let eps = <Vec<Vec<$t>>>::deserialize_eps(placed).map_err(|e| format!("eps: {}", err_kind(&e)))?.eps_val();
            let mut h = [0u8; 16]; h.copy_from_slice(&b[13..29]);
            let mut vh = [0u8; 16]; vh.copy_from_slice(&vb[13..29]);
            Ok((full, eps, h, vh))
        }))
    }};
}

fn o3<V>(r: Result<Result<V, String>, String>) -> Out<V> { match r { Ok(Ok(v)) => Out::Ok(v), Ok(Err(e)) => Out::Err(e), Err(p) => Out::Panic(p) } }

macro_rules! ser_ctx {
    ($x:expr, $ctx:expr, $w:expr) => {{
        let x = $x;
        match $ctx {
            Ctx::Alone => x.serialize($w),
            Ctx::G1 => G1 { id: -7, data: x }.serialize($w),
            Ctx::G2First => G2 { a: x, n: 9, b: String::from("tail") }.serialize($w),
            Ctx::G2Second => G2 { a: 0xABCDu16, n: 9, b: x }.serialize($w),
            Ctx::GEOne => GE::<_, Vec<u8>>::One(x).serialize($w),
            Ctx::Nested => G1 { id: 1, data: W { a: x, b: 3 } }.serialize($w),
        }
    }};
}

macro_rules! deser_ctx {
    ($t:ty, $bytes:expr, $ctx:expr) => {{
        let bytes: &[u8] = $bytes;
        let full = |b: &[u8]| -> Out<Val> {
            let mut cur = std::io::Cursor::new(b);
            o3(guarded(|| -> Result<Val, String> { Ok(match $ctx {
                Ctx::Alone => <Vec<$t>>::deserialize_full(&mut cur).map_err(|e| err_kind(&e))?.to_val(),
                Ctx::G1 => <G1<Vec<$t>>>::deserialize_full(&mut cur).map_err(|e| err_kind(&e))?.data.to_val(),
                Ctx::G2First => <G2<Vec<$t>, String>>::deserialize_full(&mut cur).map_err(|e| err_kind(&e))?.a.to_val(),
                Ctx::G2Second => <G2<u16, Vec<$t>>>::deserialize_full(&mut cur).map_err(|e| err_kind(&e))?.b.to_val(),
                Ctx::GEOne => match <GE<Vec<$t>, Vec<u8>>>::deserialize_full(&mut cur).map_err(|e| err_kind(&e))? { GE::One(x) => x.to_val(), _ => return Err("wrong variant".into()) },
                Ctx::Nested => <G1<W<Vec<$t>>>>::deserialize_full(&mut cur).map_err(|e| err_kind(&e))?.data.a.to_val(),
            }) }))
        };
        let mut arena = Arena::new(bytes.len() + 4096);
        let placed = arena.place(0, bytes);
        let eps = o3(guarded(|| -> Result<Val, String> { Ok(match $ctx {
            Ctx::Alone => <Vec<$t>>::deserialize_eps(placed).map_err(|e| err_kind(&e))?.eps_val(),
            Ctx::G1 => <G1<Vec<$t>>>::deserialize_eps(placed).map_err(|e| err_kind(&e))?.data.eps_val(),
            Ctx::G2First => <G2<Vec<$t>, String>>::deserialize_eps(placed).map_err(|e| err_kind(&e))?.a.eps_val(),
            Ctx::G2Second => <G2<u16, Vec<$t>>>::deserialize_eps(placed).map_err(|e| err_kind(&e))?.b.eps_val(),
            Ctx::GEOne => match <GE<Vec<$t>, Vec<u8>>>::deserialize_eps(placed).map_err(|e| err_kind(&e))? { GE::One(x) => x.eps_val(), _ => return Err("wrong variant".into()) },
            Ctx::Nested => <G1<W<Vec<$t>>>>::deserialize_eps(placed).map_err(|e| err_kind(&e))?.data.a.eps_val(),
        }) }));
        (full(bytes), eps)
    }};
}

macro_rules! seq_ops {
    ($name:ident, $t:ty, zero) => {
        pub struct $name(std::cell::RefCell<Vec<Vec<$t>>>);
        impl SeqOps for $name {
            fn elem_ty(&self) -> Ty { <$t as Dom>::ty() }
            fn has_iter(&self) -> bool { true }
            fn build(&self, cap: usize) -> usize { let (v, _, _) = domain::<Vec<$t>>(cap); let n = v.len(); *self.0.borrow_mut() = v; n }
            fn add_repeated(&self, i: usize, k: usize) -> usize {
                let mut d = self.0.borrow_mut();
                let base = d[i].clone();
                let mut big = Vec::with_capacity(base.len() * k);
                for _ in 0..k { big.extend(base.iter().cloned()); }
                d.push(big);
                d.len() - 1
            }
            fn val(&self, i: usize) -> Val { self.0.borrow()[i].to_val() }
            fn owned(&self, i: usize) -> Vec<usize> { let mut o = vec![]; self.0.borrow()[i].owned(&mut o); o.into_iter().map(|x| x.0).collect() }
            fn ser(&self, i: usize, src: Src, ctx: Ctx, w: &mut ScriptWriter) -> Out<usize> {
                let vals = self.0.borrow();
                let v: &Vec<$t> = &vals[i];
                o3(guarded(|| match src {
                    Src::Vec => ser_ctx!(v.clone(), ctx, w),
                    Src::Slice => ser_ctx!(&v[..], ctx, w),
                    Src::Iter => ser_ctx!(SerIter::from(v.iter()), ctx, w),
                }.map_err(|e| format!("{:?}", e))))
            }
            fn deser(&self, bytes: &[u8], ctx: Ctx) -> (Out<Val>, Out<Val>) { deser_ctx!($t, bytes, ctx) }
            fn mask(&self, i: usize, ctx: Ctx) -> Vec<bool> {
                let v: Vec<$t> = self.0.borrow()[i].clone();
                fn m<X: Dom + epserde::ser::SerializeInner>(x: X) -> Vec<bool> { encode(&X::ty(), &x.to_val(), core::any::type_name::<X::SerType>()).mask }
                match ctx {
                    Ctx::Alone => m(v),
                    Ctx::G1 => m(G1 { id: -7, data: v }),
                    Ctx::G2First => m(G2 { a: v, n: 9, b: String::from("tail") }),
                    Ctx::G2Second => m(G2 { a: 0xABCDu16, n: 9, b: v }),
                    Ctx::GEOne => m(GE::<_, Vec<u8>>::One(v)),
                    Ctx::Nested => m(G1 { id: 1, data: W { a: v, b: 3 } }),
                }
            }
            fn liar(&self, i: usize, announce: usize, ctx: Ctx) -> Out<usize> {
                let vals = self.0.borrow();
                let v: &Vec<$t> = &vals[i];
                let mut sink: Vec<u8> = Vec::new();
                o3(guarded(|| ser_ctx!(SerIter::from(Liar { inner: v.iter(), announce }), ctx, &mut sink).map_err(|e| format!("{:?}", e))))
            }
            fn ser_schema(&self, i: usize, src: Src) -> Out<(Vec<u8>, Vec<(String, usize, usize, usize)>)> {
                let vals = self.0.borrow();
                let v: &Vec<$t> = &vals[i];
                o3(guarded(|| {
                    let mut buf: Vec<u8> = Vec::new();
                    let schema = match src { Src::Vec => v.clone().serialize_with_schema(&mut buf), Src::Slice => (&v[..]).serialize_with_schema(&mut buf), Src::Iter => SerIter::from(v.iter()).serialize_with_schema(&mut buf) }.map_err(|e| format!("{:?}", e))?;
                    Ok((buf, schema.0.iter().map(|r| (r.field.clone(), r.offset, r.size, r.align)).collect()))
                }))
            }
            fn odd_iterators(&self, i: usize) -> Vec<(&'static str, Out<usize>, Vec<u8>)> {
                let vals = self.0.borrow();
                let v: &Vec<$t> = &vals[i];
                let mut out = vec![];
                let mut sink: Vec<u8> = Vec::new();
                let r = o3(guarded(|| SerIter::from(LooseHint { inner: v.iter() }).serialize(&mut sink).map_err(|e| format!("{:?}", e))));
                out.push(("honest-len-loose-size-hint", r, sink));
                let mut sink: Vec<u8> = Vec::new();
                let r = o3(guarded(|| SerIter::from(Tracking { inner: v.iter(), delta: 2 }).serialize(&mut sink).map_err(|e| format!("{:?}", e))));
                out.push(("len-tracks-items-left-plus-2", r, sink));
                out
            }
            fn reserialize_loaded(&self, i: usize, loader: u8, dev: Option<(usize, u8)>) -> Out<(usize, usize, bool)> {
                let vals = self.0.borrow();
                let v: &Vec<$t> = &vals[i];
                let path = format!("{}/c09-reser-{}.bin", vcore::checks3::scratch(), std::process::id());
                o3(guarded(|| -> Result<(usize, usize, bool), String> {
                    v.store(&path).map_err(|e| format!("store: {:?}", e))?;
                    let case = if loader == 1 { <Vec<$t>>::load_mem(&path) } else { <Vec<$t>>::mmap(&path, epserde::deser::Flags::empty()) }.map_err(|e| format!("load: {}", e))?;
                    let (_, base, len) = case.__verif_backend();
                    let region = |b: *const u8, l: usize| if b.is_null() { 0 } else { xxhash_rust::xxh3::xxh3_64(unsafe { core::slice::from_raw_parts(b, l) }) };
                    let before = region(base, len);
                    let mut w = ScriptWriter::new(Script { dev: dev.into_iter().collect() });
                    protect(&[case.as_ptr() as usize]);
                    let r = guarded(|| (*case).serialize(&mut w).map(|_| ()).map_err(|e| format!("{:?}", e)));
                    let freed = unprotect();
                    let same = region(base, len) == before;
                    let npoints = w.log.len();
                    drop(r);
                    drop(case);
                    let _ = std::fs::remove_file(&path);
                    Ok((npoints, freed, same))
                }))
            }
            fn full_consumed(&self, bytes: &[u8]) -> Out<usize> {
                let mut cur = std::io::Cursor::new(bytes);
                o3(guarded(|| { <Vec<$t>>::deserialize_full(&mut cur).map_err(|e| err_kind(&e))?; Ok(cur.position() as usize) }))
            }
            fn liar_stream(&self, i: usize, announce: usize) -> (Out<usize>, Vec<u8>) {
                let vals = self.0.borrow();
                let v: &Vec<$t> = &vals[i];
                let mut sink: Vec<u8> = Vec::new();
                let r = o3(guarded(|| SerIter::from(Liar { inner: v.iter(), announce }).serialize(&mut sink).map_err(|e| format!("{:?}", e))));
                (r, sink)
            }
            fn wrapper_hashes(&self) -> Vec<(&'static str, (u64, u64), (u64, u64))> {
                let mut v = common_wrappers!($t);
                v.push(("SerIter<T, slice::Iter> / Vec<T>", hp::<SerIter<'static, $t, std::slice::Iter<'static, $t>>>(), hp::<Vec<$t>>()));
                v.push(("SerIter<T, Liar> / Vec<T>", hp::<SerIter<'static, $t, Liar<'static, $t>>>(), hp::<Vec<$t>>()));
                v.push(("G1<SerIter<T, _>> / G1<Vec<T>>", hp::<G1<SerIter<'static, $t, std::slice::Iter<'static, $t>>>>(), hp::<G1<Vec<$t>>>()));
                v
            }
            fn nested_slices(&self, i: usize) -> Out<(Val, Val, [u8; 16], [u8; 16])> { let vals = self.0.borrow(); nested_slices!($t, &vals[i]) }
        }
    };
    ($name:ident, $t:ty, deep) => {
        pub struct $name(std::cell::RefCell<Vec<Vec<$t>>>);
        impl SeqOps for $name {
            fn elem_ty(&self) -> Ty { <$t as Dom>::ty() }
            fn has_iter(&self) -> bool { false }
            fn build(&self, cap: usize) -> usize { let (v, _, _) = domain::<Vec<$t>>(cap); let n = v.len(); *self.0.borrow_mut() = v; n }
            fn add_repeated(&self, i: usize, k: usize) -> usize {
                let mut d = self.0.borrow_mut();
                let base = d[i].clone();
                let mut big = Vec::with_capacity(base.len() * k);
                for _ in 0..k { big.extend(base.iter().cloned()); }
                d.push(big);
                d.len() - 1
            }
            fn val(&self, i: usize) -> Val { self.0.borrow()[i].to_val() }
            fn owned(&self, i: usize) -> Vec<usize> { let mut o = vec![]; self.0.borrow()[i].owned(&mut o); o.into_iter().map(|x| x.0).collect() }
            fn ser(&self, i: usize, src: Src, ctx: Ctx, w: &mut ScriptWriter) -> Out<usize> {
                let vals = self.0.borrow();
                let v: &Vec<$t> = &vals[i];
                o3(guarded(|| match src {
                    Src::Vec => ser_ctx!(v.clone(), ctx, w),
                    Src::Slice => ser_ctx!(&v[..], ctx, w),
                    Src::Iter => unreachable!(),
                }.map_err(|e| format!("{:?}", e))))
            }
            fn deser(&self, bytes: &[u8], ctx: Ctx) -> (Out<Val>, Out<Val>) { deser_ctx!($t, bytes, ctx) }
            fn mask(&self, i: usize, ctx: Ctx) -> Vec<bool> {
                let v: Vec<$t> = self.0.borrow()[i].clone();
                fn m<X: Dom + epserde::ser::SerializeInner>(x: X) -> Vec<bool> { encode(&X::ty(), &x.to_val(), core::any::type_name::<X::SerType>()).mask }
                match ctx {
                    Ctx::Alone => m(v),
                    Ctx::G1 => m(G1 { id: -7, data: v }),
                    Ctx::G2First => m(G2 { a: v, n: 9, b: String::from("tail") }),
                    Ctx::G2Second => m(G2 { a: 0xABCDu16, n: 9, b: v }),
                    Ctx::GEOne => m(GE::<_, Vec<u8>>::One(v)),
                    Ctx::Nested => m(G1 { id: 1, data: W { a: v, b: 3 } }),
                }
            }
            fn liar(&self, _i: usize, _announce: usize, _ctx: Ctx) -> Out<usize> { unreachable!() }
            fn ser_schema(&self, i: usize, src: Src) -> Out<(Vec<u8>, Vec<(String, usize, usize, usize)>)> {
                let vals = self.0.borrow();
                let v: &Vec<$t> = &vals[i];
                o3(guarded(|| {
                    let mut buf: Vec<u8> = Vec::new();
                    let schema = match src { Src::Vec => v.clone().serialize_with_schema(&mut buf), Src::Slice => (&v[..]).serialize_with_schema(&mut buf), Src::Iter => unreachable!() }.map_err(|e| format!("{:?}", e))?;
                    Ok((buf, schema.0.iter().map(|r| (r.field.clone(), r.offset, r.size, r.align)).collect()))
                }))
            }
            fn odd_iterators(&self, _i: usize) -> Vec<(&'static str, Out<usize>, Vec<u8>)> { vec![] }
            fn reserialize_loaded(&self, _i: usize, _loader: u8, _dev: Option<(usize, u8)>) -> Out<(usize, usize, bool)> { Out::Err("not-applicable".into()) }
            fn full_consumed(&self, bytes: &[u8]) -> Out<usize> {
                let mut cur = std::io::Cursor::new(bytes);
                o3(guarded(|| { <Vec<$t>>::deserialize_full(&mut cur).map_err(|e| err_kind(&e))?; Ok(cur.position() as usize) }))
            }
            fn liar_stream(&self, _i: usize, _announce: usize) -> (Out<usize>, Vec<u8>) { unreachable!() }
            fn wrapper_hashes(&self) -> Vec<(&'static str, (u64, u64), (u64, u64))> { common_wrappers!($t) }
            fn nested_slices(&self, i: usize) -> Out<(Val, Val, [u8; 16], [u8; 16])> { let vals = self.0.borrow(); nested_slices!($t, &vals[i]) }
        }
    };
}

macro_rules! registry {
    ($( $name:ident : $t:ty : $k:ident ),* $(,)?) => {
        $( seq_ops!($name, $t, $k); )*
        pub fn all() -> Vec<(&'static str, Box<dyn SeqOps>)> {
            vec![ $( (stringify!($t), Box::new($name(Default::default())) as Box<dyn SeqOps>) ),* ]
        }
    };
}

registry! {
    S_u8: u8: zero, S_u16: u16: zero, S_u32: u32: zero, S_u64: u64: zero, S_u128: u128: zero, S_usize: usize: zero,
    S_i8: i8: zero, S_i64: i64: zero, S_f32: f32: zero, S_f64: f64: zero, S_bool: bool: zero, S_char: char: zero,
    S_nz16: NonZeroU16: zero, S_nz64: NonZeroI64: zero, S_unit: (): zero,
    S_P1: P1: zero, S_Z0: Z0: zero, S_Z16: Z16: zero, S_P64: P64: zero, S_NT: NT: zero, S_T3: T3: zero, S_ZN: ZN: zero, S_EZ: EZ: zero, S_EU: EU: zero,
    S_tup: (u16, u16): zero, S_arr: [u32; 3]: zero, S_arr0: [u64; 0]: zero, S_rt: RangeTo<u8>: zero, S_rt3: RangeTo<T3>: zero, S_rti6: core::ops::RangeToInclusive<[u16; 3]>: zero, S_zg: ZG<u32>: zero, S_za: ZA: zero, S_trt3: (RangeTo<T3>,): zero, S_art3: [RangeTo<T3>; 1]: zero, S_trt3x2: (RangeTo<T3>, RangeTo<T3>): zero,
    S_String: String: deep, S_BoxStr: Box<str>: deep, S_VecU8: Vec<u8>: deep, S_VecStr: Vec<String>: deep, S_D1: D1: deep, S_E1: E1: deep,
    S_OptU32: Option<u32>: deep, S_G1: G1<Vec<u8>>: deep, S_ArrS: [String; 2]: deep,
}

fn sink_all(ops: &dyn SeqOps, i: usize, src: Src, ctx: Ctx) -> (Out<usize>, Vec<u8>) {
    let mut w = ScriptWriter::new(Script::default());
    let r = ops.ser(i, src, ctx, &mut w);
    (r, w.accepted)
}

/// Writer faults (every single deviation at every choice point) while serializing BORROWED
/// sources — a slice reference and an exact-size iterator over value `i` — alone and inside
/// generic items: error reported, accepted bytes a prefix, and the borrowed memory (protected
/// by the poisoning allocator) neither freed nor changed.
pub fn borrowed_faults(ops: &dyn SeqOps, cx: &mut Cx, i: usize, want: &Val, srcs: &[Src]) {
        let prot = ops.owned(i);
        for src in srcs {
            for ctx in [Ctx::Alone, Ctx::G1, Ctx::GEOne] {
                let (_, reference) = sink_all(ops, i, Src::Vec, ctx);
                let mut probe = ScriptWriter::new(Script::default());
                let _ = ops.ser(i, *src, ctx, &mut probe);
                let npoints = probe.log.len();
                for p in 0..npoints {
                    let (_, is_flush, len) = probe.log[p];
                    // alternative 5: the writer unwinds instead of returning (the borrowed data must
                    // survive the unwinding too)
                    let alts: &[u8] = if is_flush { &[0] } else if len == 0 { &[2, 4, 5] } else { &[0, 1, 2, 3, 4, 5] };
                    for a in alts {
                        cx.evals += 1;
                        cx.transitions += 1;
                        let mut w = ScriptWriter::new(Script { dev: vec![(p, *a)] });
                        protect(&prot);
                        let r = ops.ser(i, *src, ctx, &mut w);
                        let freed = unprotect();
                        let hard = w.hard_fail;
                        let mut bad: Vec<&str> = vec![];
                        match &r {
                            Out::Panic(m) if *a == 5 && m.contains(WRITER_PANIC) => {}
                            Out::Panic(_) => bad.push("panic"),
                            Out::Ok(_) => { if hard { bad.push("success-despite-failure"); } else if !(w.accepted == reference || vcore::checks::masked_eq(&w.accepted, &reference, &ops.mask(i, ctx))) { bad.push("bytes-differ-from-fault-free"); } }
                            Out::Err(e) if e == "WriteError" => { if !hard { bad.push("error-without-failure"); } }
                            Out::Err(_) => bad.push("wrong-error-kind"),
                        }
                        { let m = ops.mask(i, ctx); let k = w.accepted.len(); if k > reference.len() || !(reference.starts_with(&w.accepted) || (m.len() == reference.len() && vcore::checks::masked_eq(&w.accepted, &reference[..k], &m[..k]))) { bad.push("accepted-not-a-prefix"); } }
                        if freed > 0 { bad.push("source-memory-freed"); }
                        if ops.val(i) != *want { bad.push("source-value-changed"); }
                        cx.outcome(&format!("fault-{}", r.class()));
                        for b in bad { cx.violate(&format!("writer-{}", b), json!({"value": vdesc(i, &want), "source": format!("{:?}", src), "context": format!("{:?}", ctx), "script": [p, *a], "observed": r.describe()})); }
                    }
                }
            }
        }
}

/// The C18 part over the sequence wrappers: the stream that `serialize_with_schema` writes for a
/// slice reference or an exact-size iterator is the stream of `serialize`, and its rows satisfy
/// the forest conditions.
pub fn c18_wrappers(ops: &dyn SeqOps, cx: &mut Cx) {
    let n = ops.build(cx.tier.pick(30, 200));
    let srcs: Vec<Src> = if ops.has_iter() { vec![Src::Vec, Src::Slice, Src::Iter] } else { vec![Src::Vec, Src::Slice] };
    // a schema of more than 2^16 rows (a long sequence of deep-copy items, or an iterator of
    // many zero-copy items): still the whole forest
    if n > 0 {
        let li = ops.add_repeated(n - 1, 24_000);
        for src in &srcs {
            if let Out::Ok((bytes, rows)) = ops.ser_schema(li, *src) {
                if rows.len() > (1 << 16) {
                    cx.evals += 1;
                    cx.transitions += rows.len() as u64;
                    cx.count("schemas_of_more_than_65536_rows", 1);
                    let bad = vcore::checks2::schema_forest(&rows, &bytes, 0);
                    cx.outcome(if bad.is_empty() { "large-schema-ok" } else { "large-schema-bad" });
                    // (the per-item rows of SerIter over items whose size is not a multiple of their unit are F17)
                    for (c, d) in bad.into_iter().filter(|(c, _)| c != "block-not-at-multiple-of-recorded-align").take(4) { cx.violate(&format!("large-schema-{}", c), json!({"source": format!("{:?}", src), "rows": rows.len(), "observed": d})); }
                }
            }
        }
    }
    for i in 0..n {
        let want = ops.val(i);
        cx.case(vcore::cx::hash64(&[cx.type_id.as_bytes(), format!("{:?}", want).as_bytes()]), true);
        for src in &srcs {
            cx.evals += 1;
            let (r, plain) = sink_all(ops, i, *src, Ctx::Alone);
            if !matches!(r, Out::Ok(_)) { continue; }
            match ops.ser_schema(i, *src) {
                Out::Ok((bytes, rows)) => {
                    cx.transitions += rows.len() as u64;
                    let mask = ops.mask(i, Ctx::Alone);
                    if !(bytes == plain || (mask.len() == plain.len() && bytes.len() == plain.len() && vcore::checks::masked_eq(&bytes, &plain, &mask))) {
                        cx.violate("wrapper-schema-stream-differs-from-plain", json!({"value": vdesc(i, &want), "source": format!("{:?}", src), "schema_len": bytes.len(), "plain_len": plain.len()}));
                    }
                    for (c, d) in vcore::checks2::schema_forest(&rows, &bytes, 0) { cx.violate(&format!("wrapper-schema-{}", c), json!({"value": vdesc(i, &want), "source": format!("{:?}", src), "observed": d})); }
                    cx.outcome("wrapper-schema-ok");
                }
                o => cx.violate(&format!("wrapper-schema-ser-{}", o.class()), json!({"value": vdesc(i, &want), "source": format!("{:?}", src), "observed": o.describe()})),
            }
        }
        if i == 1 { cx.sample(json!({"schema_of_wrappers_over": cx.type_id, "items": format!("{:?}", want)})); }
    }
}

/// The C09 part over re-serialized loaded structures: a `MemCase<&[T]>` serialized again
/// through a writer that fails or unwinds at every point; the backing memory of the case is
/// neither freed (the slice is an interior pointer of it) nor changed, and the case can still
/// be dropped normally.
pub fn c09_reserialize(ops: &dyn SeqOps, cx: &mut Cx) {
    if !ops.has_iter() { cx.outcome("not-applicable-deep-items"); return; }
    let n = ops.build(cx.tier.pick(30, 200));
    // the longest of the first values: its slice is a real interior pointer
    for i in (0..n).rev().take(cx.tier.pick(2, 6)) {
        let want = ops.val(i);
        cx.case(vcore::cx::hash64(&[cx.type_id.as_bytes(), format!("{:?}", want).as_bytes()]), true);
        for loader in [1u8, 3] {
            let np = match ops.reserialize_loaded(i, loader, None) { Out::Ok((np, _, _)) => np, o => { cx.violate(&format!("reserialize-loaded-{}", o.class()), json!({"value": vdesc(i, &want), "loader": loader, "observed": o.describe()})); continue; } };
            for p in 0..np {
                for alt in [4u8, 5] {
                    cx.evals += 1;
                    cx.transitions += 1;
                    match ops.reserialize_loaded(i, loader, Some((p, alt))) {
                        Out::Ok((_, freed, same)) => {
                            cx.outcome("reserialized-under-fault");
                            if freed > 0 { cx.violate("backing-memory-of-loaded-structure-freed-by-reserialization", json!({"value": vdesc(i, &want), "loader": loader, "point": p, "writer": if alt == 5 { "unwinds" } else { "fails" }, "free_attempts": freed})); }
                            if !same { cx.violate("backing-memory-of-loaded-structure-changed-by-reserialization", json!({"value": vdesc(i, &want), "loader": loader, "point": p})); }
                        }
                        o => cx.violate(&format!("reserialize-loaded-{}", o.class()), json!({"value": vdesc(i, &want), "loader": loader, "point": p, "observed": o.describe()})),
                    }
                }
            }
        }
        if i + 1 == n { cx.sample(json!({"reserialized_after_loading": cx.type_id, "items": format!("{:?}", want), "loaders": ["load_mem", "mmap"], "writer_answers": ["fails", "unwinds"]})); }
    }
}

/// The C07 part over the sequence wrappers (the universe of the runner holds owned values
/// only): the count returned for a slice reference or an exact-size iterator is the number of
/// bytes the sink received, and the vector deserializer consumes exactly that many — also for
/// the stream of an iterator that yields another number of items than it announced, should
/// serialization have accepted it.
pub fn c07_wrappers(ops: &dyn SeqOps, cx: &mut Cx) {
    let n = ops.build(cx.tier.pick(30, 200));
    let srcs: Vec<Src> = if ops.has_iter() { vec![Src::Slice, Src::Iter] } else { vec![Src::Slice] };
    for i in 0..n {
        let want = ops.val(i);
        cx.case(vcore::cx::hash64(&[cx.type_id.as_bytes(), format!("{:?}", want).as_bytes()]), true);
        let mut streams: Vec<(String, Out<usize>, Vec<u8>)> = srcs.iter().map(|s| { let (r, b) = sink_all(ops, i, *s, Ctx::Alone); (format!("{:?}", s), r, b) }).collect();
        if ops.has_iter() {
            let len = match &want { Val::Seq(v) => v.len(), _ => 0 };
            for a in 0..=4usize { if a != len { let (r, b) = ops.liar_stream(i, a); streams.push((format!("iterator announcing {} yielding {}", a, len), r, b)); } }
        }
        for (what, r, b) in streams {
            cx.evals += 1;
            cx.transitions += 1;
            let Out::Ok(cnt) = r else { cx.outcome("wrapper-not-serialized"); continue };
            if cnt != b.len() { cx.violate("wrapper-count-differs-from-bytes-received", json!({"value": vdesc(i, &want), "source": what, "returned": cnt, "sink_received": b.len()})); continue; }
            let mut ext = b.clone();
            ext.extend_from_slice(&[0x5A; 40]);
            match ops.full_consumed(&ext) {
                Out::Ok(c) if c == cnt => cx.outcome("wrapper-stream-consumed-exactly"),
                Out::Ok(c) => cx.violate("wrapper-stream-not-consumed-exactly", json!({"value": vdesc(i, &want), "source": what, "written": cnt, "consumed": c})),
                o => cx.violate(&format!("wrapper-stream-full-{}", o.class()), json!({"value": vdesc(i, &want), "source": what, "written": cnt, "observed": o.describe()})),
            }
        }
        if i == 1 { cx.sample(json!({"wrappers_over": cx.type_id, "items": format!("{:?}", want)})); }
    }
}

/// The C13 part over borrowed sources (the universe of the runner holds owned values only).
pub fn c13_borrowed(ops: &dyn SeqOps, cx: &mut Cx) {
    let n = ops.build(cx.tier.pick(30, 200));
    let srcs: Vec<Src> = if ops.has_iter() { vec![Src::Slice, Src::Iter] } else { vec![Src::Slice] };
    for i in 0..n.min(cx.tier.pick(6, 16)) {
        let want = ops.val(i);
        cx.case(vcore::cx::hash64(&[cx.type_id.as_bytes(), format!("{:?}", want).as_bytes()]), true);
        borrowed_faults(ops, cx, i, &want, &srcs);
        if i == 1 { cx.sample(json!({"borrowed_sources_of": cx.type_id, "items": format!("{:?}", want), "sources": format!("{:?}", srcs)})); }
    }
}

pub fn c16(ops: &dyn SeqOps, cx: &mut Cx) {
    let n = ops.build(cx.tier.pick(30, 200));
    let srcs: Vec<Src> = if ops.has_iter() { vec![Src::Slice, Src::Iter] } else { vec![Src::Slice] };
    // long sequences (thousands of items: past 4 KiB / 8 KiB / 64 KiB of payload for most item types)
    if n > 0 {
        for k in [700usize, 9_000] {
            let li = ops.add_repeated(n - 1, k);
            let nitems = match ops.val(li) { Val::Seq(v) => v.len(), _ => 0 };
            for ctx in [Ctx::Alone, Ctx::G1] {
                cx.evals += 1;
                let (rv, vb) = sink_all(ops, li, Src::Vec, ctx);
                if !matches!(rv, Out::Ok(_)) { continue; }
                let mask = ops.mask(li, ctx);
                for src in &srcs {
                    cx.evals += 1;
                    let (r, b) = sink_all(ops, li, *src, ctx);
                    match &r {
                        Out::Ok(cnt) if *cnt == vb.len() && (b == vb || (mask.len() == vb.len() && vcore::checks::masked_eq(&b, &vb, &mask))) => cx.outcome("long-sequence-bytes-identical"),
                        Out::Ok(_) => cx.violate(&format!("{:?}-long-sequence-bytes-differ-from-vec", src).to_lowercase(), json!({"items": nitems, "context": format!("{:?}", ctx), "len": b.len(), "vec_len": vb.len()})),
                        o => cx.violate(&format!("{:?}-long-sequence-ser-{}", src, o.class()).to_lowercase(), json!({"items": nitems, "context": format!("{:?}", ctx), "observed": o.describe()})),
                    }
                }
            }
        }
    }
    // the wrappers share both header hashes with the vector wherever they appear in a type
    for (label, w, v) in ops.wrapper_hashes() {
        cx.evals += 1;
        cx.outcome(if w == v { "wrapper-hashes-equal" } else { "wrapper-hashes-differ" });
        if w.0 != v.0 { cx.violate("wrapper-type-hash-differs-from-vec", json!({"types": label, "wrapper": format!("{:016x}", w.0), "vector": format!("{:016x}", v.0)})); }
        if w.1 != v.1 { cx.violate("wrapper-align-hash-differs-from-vec", json!({"types": label, "wrapper": format!("{:016x}", w.1), "vector": format!("{:016x}", v.1)})); }
    }
    for i in 0..n {
        let want = ops.val(i);
        cx.case(vcore::cx::hash64(&[cx.type_id.as_bytes(), format!("{:?}", want).as_bytes()]), true);
        // a vector of slice references reads back as a vector of vectors
        if i < cx.tier.pick(12, 60) {
            cx.evals += 1;
            cx.transitions += 2;
            let two = Val::Seq(vec![want.clone(), want.clone()]);
            match ops.nested_slices(i) {
                Out::Ok((f, e, h, vh)) => {
                    cx.outcome("nested-slices-ok");
                    if f != two || e != two { cx.violate("vec-of-slices-read-back-differs", json!({"value": vdesc(i, &want), "full": format!("{:?}", f), "eps": format!("{:?}", e)})); }
                    if h != vh { cx.violate("vec-of-slices-header-hashes-differ-from-vec-of-vecs", json!({"value": vdesc(i, &want)})); }
                }
                o => cx.violate(&format!("vec-of-slices-{}", o.class()), json!({"value": vdesc(i, &want), "observed": o.describe()})),
            }
        }
        for ctx in CTXS {
            cx.evals += 1;
            let (rv, vb) = sink_all(ops, i, Src::Vec, ctx);
            let mask = ops.mask(i, ctx);
            if !matches!(rv, Out::Ok(_)) { cx.outcome("vec-not-serializable"); cx.violate(&format!("vec-ser-{}", rv.class()), json!({"value": vdesc(i, &want), "context": format!("{:?}", ctx), "observed": rv.describe()})); continue; }
            for src in &srcs {
                cx.evals += 1;
                cx.transitions += 1;
                let (r, b) = sink_all(ops, i, *src, ctx);
                match &r {
                    Out::Ok(cnt) if *cnt == vb.len() && (b == vb || (mask.len() == vb.len() && vcore::checks::masked_eq(&b, &vb, &mask))) => cx.outcome("bytes-identical"),
                    Out::Ok(_) => {
                        let first = b.iter().zip(&vb).position(|(x, y)| x != y).unwrap_or(b.len().min(vb.len()));
                        cx.outcome("bytes-differ");
                        cx.violate(&format!("{:?}-bytes-differ-from-vec-in-{}", src, if first < 13 { "preamble" } else if first < 21 { "type-hash" } else if first < 29 { "align-hash" } else { "name-or-body" }).to_lowercase(),
                            json!({"value": vdesc(i, &want), "context": format!("{:?}", ctx), "first_diff": first, "len": b.len(), "vec_len": vb.len()}));
                    }
                    o => { cx.outcome("src-ser-fail"); cx.violate(&format!("{:?}-ser-{}", src, o.class()).to_lowercase(), json!({"value": vdesc(i, &want), "context": format!("{:?}", ctx), "observed": o.describe()})) }
                }
                // the stream that `serialize_with_schema` writes for the wrapper is the vector's too
                if ctx == Ctx::Alone {
                    cx.evals += 1;
                    match ops.ser_schema(i, *src) {
                        Out::Ok((sb, _)) if sb == vb || (mask.len() == vb.len() && sb.len() == vb.len() && vcore::checks::masked_eq(&sb, &vb, &mask)) => cx.outcome("schema-stream-identical"),
                        Out::Ok((sb, _)) => cx.violate(&format!("{:?}-schema-stream-differs-from-vec", src).to_lowercase(), json!({"value": vdesc(i, &want), "len": sb.len(), "vec_len": vb.len()})),
                        o => cx.violate(&format!("{:?}-schema-ser-{}", src, o.class()).to_lowercase(), json!({"value": vdesc(i, &want), "observed": o.describe()})),
                    }
                }
                // deserializes as the vector type in both modes
                let (f, e) = ops.deser(&b, ctx);
                match (&f, &e) {
                    (Out::Ok(x), Out::Ok(y)) if *x == want && *y == want => cx.outcome("deser-as-vec-ok"),
                    _ => cx.violate(&format!("{:?}-stream-not-readable-as-vec", src).to_lowercase(), json!({"value": vdesc(i, &want), "context": format!("{:?}", ctx), "full": f.describe(), "eps": e.describe()})),
                }
            }
        }
        // writer faults on borrowed sources (D = 1): the borrowed data must never be freed
        if i < cx.tier.pick(4, 12) { borrowed_faults(ops, cx, i, &want, &srcs); }
        // unusual but legal exact-size iterators
        if ops.has_iter() {
            let b = match &want { Val::Seq(v) => v.len(), _ => 0 };
            let (_, vb) = sink_all(ops, i, Src::Vec, Ctx::Alone);
            let mask = ops.mask(i, Ctx::Alone);
            for (what, r, bytes) in ops.odd_iterators(i) {
                cx.evals += 1;
                cx.transitions += 1;
                if what.starts_with("honest") {
                    match &r {
                        Out::Ok(cnt) if *cnt == vb.len() && (bytes == vb || (mask.len() == vb.len() && vcore::checks::masked_eq(&bytes, &vb, &mask))) => cx.outcome("loose-hint-iterator-ok"),
                        o => cx.violate("honest-iterator-with-loose-size-hint-not-serialized-like-the-vector", json!({"value": vdesc(i, &want), "observed": o.describe(), "len": bytes.len(), "vec_len": vb.len()})),
                    }
                } else {
                    let exp = format!("IteratorLengthMismatch {{ actual: {}, expected: {} }}", b, b + 2);
                    match &r {
                        Out::Err(e) if *e == exp => cx.outcome("tracking-liar-reported"),
                        o => cx.violate("lying-iterator-whose-len-tracks-the-items-left-wrong-report", json!({"value": vdesc(i, &want), "expected": exp, "observed": o.describe()})),
                    }
                }
            }
        }
        // lying iterators
        if ops.has_iter() {
            let b = match &want { Val::Seq(v) => v.len(), _ => 0 };
            // announced lengths 0..4 and lengths no real sequence could have
            for a in (0..=4usize).chain([isize::MAX as usize, (isize::MAX as usize) + 1, usize::MAX, 1usize << 60, 1usize << 32]) {
                for ctx in [Ctx::Alone, Ctx::G1, Ctx::GEOne, Ctx::Nested] {
                    cx.evals += 1;
                    cx.transitions += 1;
                    let r = ops.liar(i, a, ctx);
                    let exp_err = format!("IteratorLengthMismatch {{ actual: {}, expected: {} }}", b, a);
                    let ok = if a == b { matches!(r, Out::Ok(_)) } else { matches!(&r, Out::Err(e) if *e == exp_err) };
                    cx.outcome(if a == b { "honest-iterator" } else { "lying-iterator" });
                    if !ok {
                        cx.violate(if a == b { "honest-iterator-rejected" } else if matches!(r, Out::Ok(_)) { "lying-iterator-accepted" } else { "lying-iterator-wrong-error" },
                            json!({"value": vdesc(i, &want), "announced": a, "actual": b, "context": format!("{:?}", ctx), "expected": if a == b { "Ok".to_string() } else { exp_err }, "observed": r.describe()}));
                    }
                }
            }
        }
        if i == 1 { cx.sample(json!({"element_type": cx.type_id, "items": format!("{:?}", want), "sources": format!("{:?}", srcs), "contexts": format!("{:?}", CTXS)})); }
    }
    let _ = _unused_build;
}
