// @generated
pub fn all() -> Vec<vcore::Entry> {
    let mut v = Vec::new();
    #[cfg(not(feature = "half_b"))]
    us00::register(&mut v);
    #[cfg(not(feature = "half_b"))]
    us01::register(&mut v);
    #[cfg(not(feature = "half_b"))]
    us02::register(&mut v);
    #[cfg(not(feature = "half_b"))]
    us03::register(&mut v);
    #[cfg(not(feature = "half_b"))]
    us04::register(&mut v);
    #[cfg(not(feature = "half_b"))]
    us05::register(&mut v);
    #[cfg(not(feature = "half_b"))]
    us06::register(&mut v);
    #[cfg(not(feature = "half_b"))]
    us07::register(&mut v);
    #[cfg(not(feature = "half_b"))]
    us08::register(&mut v);
    #[cfg(not(feature = "half_b"))]
    us09::register(&mut v);
    #[cfg(not(feature = "half_b"))]
    us10::register(&mut v);
    #[cfg(not(feature = "half_b"))]
    us11::register(&mut v);
    #[cfg(not(feature = "half_b"))]
    us12::register(&mut v);
    #[cfg(not(feature = "half_b"))]
    us13::register(&mut v);
    #[cfg(not(feature = "half_b"))]
    us14::register(&mut v);
    #[cfg(not(feature = "half_b"))]
    us15::register(&mut v);
    #[cfg(not(feature = "half_b"))]
    us16::register(&mut v);
    #[cfg(not(feature = "half_b"))]
    us17::register(&mut v);
    #[cfg(not(feature = "half_b"))]
    us18::register(&mut v);
    #[cfg(not(feature = "half_b"))]
    us19::register(&mut v);
    #[cfg(not(feature = "half_b"))]
    us20::register(&mut v);
    #[cfg(not(feature = "half_b"))]
    us21::register(&mut v);
    #[cfg(not(feature = "half_b"))]
    us22::register(&mut v);
    #[cfg(not(feature = "half_b"))]
    us23::register(&mut v);
    #[cfg(not(feature = "half_a"))]
    us24::register(&mut v);
    #[cfg(not(feature = "half_a"))]
    us25::register(&mut v);
    #[cfg(not(feature = "half_a"))]
    us26::register(&mut v);
    #[cfg(not(feature = "half_a"))]
    us27::register(&mut v);
    #[cfg(not(feature = "half_a"))]
    us28::register(&mut v);
    #[cfg(not(feature = "half_a"))]
    us29::register(&mut v);
    #[cfg(not(feature = "half_a"))]
    us30::register(&mut v);
    #[cfg(not(feature = "half_a"))]
    us31::register(&mut v);
    #[cfg(not(feature = "half_a"))]
    us32::register(&mut v);
    #[cfg(not(feature = "half_a"))]
    us33::register(&mut v);
    #[cfg(not(feature = "half_a"))]
    us34::register(&mut v);
    #[cfg(not(feature = "half_a"))]
    us35::register(&mut v);
    #[cfg(not(feature = "half_a"))]
    us36::register(&mut v);
    #[cfg(not(feature = "half_a"))]
    us37::register(&mut v);
    #[cfg(not(feature = "half_a"))]
    us38::register(&mut v);
    #[cfg(not(feature = "half_a"))]
    us39::register(&mut v);
    #[cfg(not(feature = "half_a"))]
    us40::register(&mut v);
    #[cfg(not(feature = "half_a"))]
    us41::register(&mut v);
    #[cfg(not(feature = "half_a"))]
    us42::register(&mut v);
    #[cfg(not(feature = "half_a"))]
    us43::register(&mut v);
    #[cfg(not(feature = "half_a"))]
    us44::register(&mut v);
    #[cfg(not(feature = "half_a"))]
    us45::register(&mut v);
    #[cfg(not(feature = "half_a"))]
    us46::register(&mut v);
    #[cfg(not(feature = "half_a"))]
    us47::register(&mut v);
    v
}
