// @generated
pub fn all() -> Vec<(&'static str, &'static str, vcore::Entry)> {
    let mut v = Vec::new();
    mr00::register(&mut v);
    mr01::register(&mut v);
    mr02::register(&mut v);
    mr03::register(&mut v);
    mr04::register(&mut v);
    mr05::register(&mut v);
    mr06::register(&mut v);
    mr07::register(&mut v);
    mr08::register(&mut v);
    mr09::register(&mut v);
    mr10::register(&mut v);
    mr11::register(&mut v);
    mr12::register(&mut v);
    mr13::register(&mut v);
    mr14::register(&mut v);
    mr15::register(&mut v);
    v
}
