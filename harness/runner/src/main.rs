use vcore::*;
use vcore::cx::*;
#[global_allocator]
static A: vcore::env::Tracking = vcore::env::Tracking;
fn main() {
    vcore::env::install_panic_hook();
    let args: Vec<String> = std::env::args().collect();
    let es: Vec<Entry> = vec![
        entry::<u8>("u8"), entry::<std::ops::RangeFull>("RangeFull"), entry::<std::ops::RangeTo<u8>>("RangeTo<u8>"), entry::<Vec<std::ops::RangeToInclusive<u64>>>("vrti"), entry::<Vec<u32>>("Vec<u32>"), entry::<Vec<String>>("Vec<String>"),
        entry::<Option<Vec<u64>>>("Option<Vec<u64>>"), entry::<(u16,u16)>("(u16,u16)"), entry::<[u32;3]>("[u32;3]"),
        entry::<[u32;0]>("[u32;0]"), entry::<Vec<()>>("Vec<()>"),
        entry::<std::ops::ControlFlow<u8,u16>>("ControlFlow<u8,u16>"),
        entry::<std::ops::Bound<String>>("Bound<String>"), entry::<std::ops::RangeInclusive<u32>>("RangeInclusive<u32>"),
        entry::<Vec<std::ops::RangeTo<(u8,u8,u8)>>>("Vec<RangeTo<(u8,u8,u8)>>"),
    ];
    let mut cx = Cx::new(&args[1], Tier::Quick);
    for e in &es { cx.type_id = e.id.to_string(); (e.run)(&args[1], &mut cx); println!("{}", cx.flush_type()); }
}
