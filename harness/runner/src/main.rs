//! Check runner. Parent mode fans the universe out to worker processes (so that an abort or
//! hang of the subject is an outcome of one case, not of the checker), aggregates, applies
//! the known-findings list, writes evidence, prints VIOLATION / KNOWN-FINDING lines.
//!
//!   runner <Cxx> <quick|thorough> [--only <type_id>] [--jobs N]
//!   runner <Cxx> <tier> --worker <i> <n> [--from k] [--only <type_id>]

mod universe;
#[cfg(feature = "mutants")]
mod mutants;
#[cfg(not(feature = "mutants"))]
mod mutants { pub fn all() -> Vec<(&'static str, &'static str, vcore::Entry)> { vec![] } }

use serde_json::{json, Value};
use std::collections::BTreeMap;
use std::io::{BufRead, BufReader, Write};
use std::process::{Command, Stdio};
use std::time::Instant;
use vcore::cx::*;

#[global_allocator]
static A: vcore::env::Tracking = vcore::env::Tracking;

const VERIF: &str = "/verif";

fn level_of(check: &str) -> &'static str {
    match check {
        "C10" | "C11" | "C13" | "C14" => "fault_enumeration",
        "C19" => "model_checking",
        _ => "exploration",
    }
}

fn worker(check: &str, tier: Tier, i: usize, n: usize, from: usize, only: Option<&str>) {
    vcore::env::install_panic_hook();
    vcore::env::set_poison(true);
    // a runaway allocation of the subject must kill this worker only, not the machine
    unsafe { let lim = libc::rlimit { rlim_cur: 12 << 30, rlim_max: 12 << 30 }; libc::setrlimit(libc::RLIMIT_AS, &lim); }
    enum Item { Ty(vcore::Entry), Seq(&'static str, Box<dyn seqs::SeqOps>), Mut(&'static str, &'static str, vcore::Entry), Twin(vcore::Entry, vcore::Entry) }
    let all: Vec<Item> = if check == "C16" { seqs::all().into_iter().map(|(id, o)| Item::Seq(id, o)).collect() }
        else if check == "C04" { universe::all().into_iter().map(Item::Ty).chain(mutants::all().into_iter().map(|(f, id, e)| Item::Mut(f, id, e))).collect() }
        else if check == "C18" { universe::all().into_iter().map(Item::Ty).chain(seqs::all().into_iter().map(|(id, o)| Item::Seq(Box::leak(format!("schema of slice / iterator wrapper over {}", id).into_boxed_str()), o))).collect() }
        else if check == "C09" { universe::all().into_iter().map(Item::Ty).chain(seqs::all().into_iter().map(|(id, o)| Item::Seq(Box::leak(format!("loaded and serialized again: &[{}]", id).into_boxed_str()), o))).collect() }
        else if check == "C07" { universe::all().into_iter().map(Item::Ty).chain(seqs::all().into_iter().map(|(id, o)| Item::Seq(Box::leak(format!("slice / iterator wrapper over {}", id).into_boxed_str()), o))).collect() }
        else if check == "C13" { universe::all().into_iter().map(Item::Ty).chain(seqs::all().into_iter().map(|(id, o)| Item::Seq(Box::leak(format!("borrowed slice / iterator over {}", id).into_boxed_str()), o))).collect() }
        else { universe::all().into_iter().map(Item::Ty).collect() };
    // pairs of different types with the same `type_name`: both members in this process, in order
    let mut all = all;
    if check != "C16" && check != "C04" { all.extend(udefs::twins().into_iter().map(|(a, b)| Item::Twin(a, b))); }
    let id_of = |it: &Item| match it { Item::Ty(e) => e.id, Item::Seq(id, _) => id, Item::Mut(_, id, _) => id, Item::Twin(a, _) => a.id };
    let members: Vec<vcore::checks4::Member> = if check == "C04" { all.iter().map(|it| match it {
        Item::Ty(e) => vcore::checks4::Member { id: e.id, family: "", ops: e.ops.as_ref() },
        Item::Mut(f, id, e) => vcore::checks4::Member { id, family: f, ops: e.ops.as_ref() },
        _ => unreachable!() }).collect() } else { vec![] };
    let band = if tier == Tier::Thorough { 200 } else { 24 };
    let mine_idx: Vec<usize> = all.iter().enumerate().filter(|(k, e)| k % n == i && only.map_or(true, |o| o == id_of(e))).map(|(k, _)| k).collect();
    let mine: Vec<&Item> = mine_idx.iter().map(|k| &all[*k]).collect();
    let out = std::io::stdout();
    let mut cx = Cx::new(check, tier);
    for (k, e) in mine.iter().enumerate().skip(from) {
        {
            let mut o = out.lock();
            writeln!(o, "{}", json!({"t": "begin", "k": k, "type_id": id_of(e)})).unwrap();
            o.flush().unwrap();
        }
        cx.type_id = id_of(e).to_string();
        let r = match e {
            Item::Ty(_) | Item::Mut(..) if check == "C04" => vcore::env::guarded(|| vcore::checks4::c04(&members, mine_idx[k], band, &mut cx)),
            Item::Ty(e) => vcore::env::guarded(|| vcore::run_check(e.ops.as_ref(), check, &mut cx)),
            Item::Mut(..) => unreachable!(),
            Item::Twin(a, b) => {
                let r = vcore::env::guarded(|| vcore::run_check(a.ops.as_ref(), check, &mut cx));
                if let Err(p) = r { cx.machinery_error(format!("checker panicked: {}", p)); }
                let v = cx.flush_type();
                { let mut o = out.lock(); writeln!(o, "{}", v).unwrap(); writeln!(o, "{}", json!({"t": "begin", "k": k, "type_id": b.id})).unwrap(); o.flush().unwrap(); }
                cx.type_id = b.id.to_string();
                vcore::env::guarded(|| vcore::run_check(b.ops.as_ref(), check, &mut cx))
            }
            Item::Seq(_, o) if check == "C18" => vcore::env::guarded(|| seqs::c18_wrappers(o.as_ref(), &mut cx)),
            Item::Seq(_, o) if check == "C09" => vcore::env::guarded(|| seqs::c09_reserialize(o.as_ref(), &mut cx)),
            Item::Seq(_, o) if check == "C07" => vcore::env::guarded(|| seqs::c07_wrappers(o.as_ref(), &mut cx)),
            Item::Seq(_, o) if check == "C13" => vcore::env::guarded(|| seqs::c13_borrowed(o.as_ref(), &mut cx)),
            Item::Seq(_, o) => vcore::env::guarded(|| seqs::c16(o.as_ref(), &mut cx)),
        };
        if let Err(p) = r { cx.machinery_error(format!("checker panicked: {}", p)); }
        let v = cx.flush_type();
        let mut o = out.lock();
        writeln!(o, "{}", v).unwrap();
        o.flush().unwrap();
    }
    vcore::checks3::cleanup_scratch();
    let mut o = out.lock();
    writeln!(o, "{}", json!({"t": "done"})).unwrap();
}

fn now_s() -> u64 { std::time::SystemTime::now().duration_since(std::time::UNIX_EPOCH).map(|d| d.as_secs()).unwrap_or(0) }

#[derive(Default)]
struct Agg {
    types: u64,
    evals: u64,
    transitions: u64,
    nontrivial: u64,
    outcomes: BTreeMap<String, u64>,
    counters: BTreeMap<String, u64>,
    viols: Vec<(String, u64, Value)>,
    samples: Vec<Value>,
    notes: Vec<String>,
    machinery: Vec<String>,
}

impl Agg {
    fn absorb(&mut self, v: &Value) {
        self.types += 1;
        self.evals += v["evals"].as_u64().unwrap_or(0);
        self.transitions += v["transitions"].as_u64().unwrap_or(0);
        self.nontrivial += v["nontrivial"].as_u64().unwrap_or(0);
        for (k, n) in v["outcomes"].as_object().into_iter().flatten() { *self.outcomes.entry(k.clone()).or_insert(0) += n.as_u64().unwrap_or(0); }
        for (k, n) in v["counters"].as_object().into_iter().flatten() { *self.counters.entry(k.clone()).or_insert(0) += n.as_u64().unwrap_or(0); }
        for x in v["viols"].as_array().into_iter().flatten() {
            self.viols.push((x["key"].as_str().unwrap().to_string(), x["count"].as_u64().unwrap_or(1), x["detail"].clone()));
        }
        for s in v["samples"].as_array().into_iter().flatten() { if self.samples.len() < 6 || self.types % 97 == 0 && self.samples.len() < 12 { self.samples.push(s.clone()); } }
        for s in v["notes"].as_array().into_iter().flatten() { self.notes.push(s.as_str().unwrap_or("").to_string()); }
        for s in v["machinery"].as_array().into_iter().flatten() { self.machinery.push(s.as_str().unwrap_or("").to_string()); }
    }
}

/// Run one worker slot to completion, restarting after crashes.
fn run_slot(exe: &std::path::Path, check: &str, tier: Tier, i: usize, n: usize, only: Option<&str>) -> (Vec<Value>, Vec<(String, String)>) {
    let mut lines = Vec::new();
    let mut crashes = Vec::new();
    let mut from = 0usize;
    loop {
        let mut cmd = Command::new(exe);
        cmd.arg(check).arg(tier.name()).arg("--worker").arg(i.to_string()).arg(n.to_string()).arg("--from").arg(from.to_string());
        if let Some(o) = only { cmd.arg("--only").arg(o); }
        cmd.env("RUST_BACKTRACE", "0").stdout(Stdio::piped()).stderr(Stdio::null());
        let mut child = cmd.spawn().expect("spawn worker");
        // watchdog: no output for too long while inside a type = the subject hangs
        let pid = child.id() as i32;
        let last = std::sync::Arc::new(std::sync::atomic::AtomicU64::new(now_s()));
        let done_flag = std::sync::Arc::new(std::sync::atomic::AtomicBool::new(false));
        let (l2, d2) = (last.clone(), done_flag.clone());
        let limit: u64 = std::env::var("VERIF_HANG_SECS").ok().and_then(|s| s.parse().ok()).unwrap_or(if tier == Tier::Thorough { 1800 } else { 300 });
        let wd = std::thread::spawn(move || {
            while !d2.load(std::sync::atomic::Ordering::Relaxed) {
                std::thread::sleep(std::time::Duration::from_millis(500));
                if now_s().saturating_sub(l2.load(std::sync::atomic::Ordering::Relaxed)) > limit { unsafe { libc::kill(pid, libc::SIGKILL); } break; }
            }
        });
        let rd = BufReader::new(child.stdout.take().unwrap());
        let mut current: Option<(usize, String)> = None;
        let mut done = false;
        for l in rd.lines() {
            let l = match l { Ok(l) => l, Err(_) => break };
            let v: Value = match serde_json::from_str(&l) { Ok(v) => v, Err(_) => continue };
            last.store(now_s(), std::sync::atomic::Ordering::Relaxed);
            match v["t"].as_str() {
                Some("begin") => current = Some((v["k"].as_u64().unwrap() as usize, v["type_id"].as_str().unwrap().to_string())),
                Some("type") => { current = None; lines.push(v); }
                Some("done") => done = true,
                _ => {}
            }
        }
        let status = child.wait().expect("wait");
        let hung = now_s().saturating_sub(last.load(std::sync::atomic::Ordering::Relaxed)) > limit;
        done_flag.store(true, std::sync::atomic::Ordering::Relaxed);
        let _ = wd.join();
        if done && status.success() { break; }
        match current {
            Some((k, ty)) => {
                let how = {
                    use std::os::unix::process::ExitStatusExt;
                    if hung { format!("hang-over-{}s", limit) } else { match status.signal() { Some(s) => format!("signal{}", s), None => format!("exit{}", status.code().unwrap_or(-1)) } }
                };
                crashes.push((ty, how));
                from = k + 1;
            }
            None => {
                if done { break; }
                // crashed outside a type: machinery problem
                crashes.push(("<worker>".into(), "crashed outside any case".into()));
                break;
            }
        }
    }
    (lines, crashes)
}

/// All ordered pairs of the collected (type, hashes, signature) table: equal header hashes
/// iff equal serialized structure.
fn c04_pairs(agg: &mut Agg) {
    let mut rows: Vec<(String, String, String, String)> = vec![]; // id, th+ah, family, sig
    for l in &agg.notes {
        let f: Vec<&str> = l.splitn(6, '\t').collect();
        if f.len() == 6 && f[0] == "SIG" { rows.push((f[1].to_string(), format!("{}{}", f[2], f[3]), f[4].to_string(), f[5].to_string())); }
    }
    let n = rows.len() as u64;
    let mut by_hash: BTreeMap<&str, Vec<usize>> = BTreeMap::new();
    let mut by_sig: BTreeMap<&str, Vec<usize>> = BTreeMap::new();
    for (k, r) in rows.iter().enumerate() { by_hash.entry(&r.1).or_default().push(k); by_sig.entry(&r.3).or_default().push(k); }
    let mut coll = 0u64;
    let mut viols = vec![];
    for (_, g) in &by_hash {
        for a in g { for b in g { if a != b && rows[*a].3 != rows[*b].3 {
            coll += 1;
            viols.push((format!("C04|{}|same-header-hashes-as|{}", rows[*a].0, rows[*b].0), 1u64, json!({"check": "C04", "class": "same-header-hashes-different-structure", "type_id": rows[*a].0, "other": rows[*b].0, "sig": rows[*a].3, "other_sig": rows[*b].3, "observed": "both header hashes are equal although the serialized structures differ"})));
        } } }
    }
    for (_, g) in &by_sig {
        for a in g { for b in g { if a < b && rows[*a].1 != rows[*b].1 {
            viols.push((format!("C04|{}|different-hashes-same-structure|{}", rows[*a].0, rows[*b].0), 1u64, json!({"check": "C04", "class": "same-structure-different-hashes", "type_id": rows[*a].0, "other": rows[*b].0, "observed": "header hashes differ although the serialized structure is the same"})));
        } } }
    }
    agg.viols.extend(viols);
    *agg.counters.entry("ordered_pairs_compared_by_hash".into()).or_insert(0) += n * n.saturating_sub(1);
    *agg.counters.entry("hash_groups".into()).or_insert(0) += by_hash.len() as u64;
    *agg.counters.entry("pairs_with_equal_hashes_and_different_structure".into()).or_insert(0) += coll;
    agg.evals += n * n.saturating_sub(1);
}

fn load_known(check: &str) -> Vec<(String, String)> {
    let mut v = Vec::new();
    if let Ok(s) = std::fs::read_to_string(format!("{}/KNOWN_FINDINGS.txt", VERIF)) {
        for l in s.lines() {
            let l = l.trim();
            if let Some(rest) = l.strip_prefix("known:") {
                let rest = rest.trim();
                let mut prop = ""; let mut key = ""; let mut desc = "";
                if let Some((head, d)) = rest.split_once(" :: ") { desc = d; for part in head.split(" key=") { if let Some(p) = part.trim().strip_prefix("property=") { prop = p.trim(); } else { key = part.trim(); } } }
                if prop == check { v.push((key.to_string(), desc.to_string())); }
            }
        }
    }
    v
}

fn main() {
    let args: Vec<String> = std::env::args().collect();
    if args.len() < 3 { eprintln!("usage: runner <Cxx> <quick|thorough> [...]"); std::process::exit(2); }
    let check = args[1].as_str();
    let tier = match args[2].as_str() { "quick" => Tier::Quick, "thorough" => Tier::Thorough, _ => { eprintln!("bad tier"); std::process::exit(2) } };
    let mut only: Option<String> = None;
    let mut jobs = 16usize;
    let mut wk: Option<(usize, usize)> = None;
    let mut from = 0usize;
    let mut i = 3;
    while i < args.len() {
        match args[i].as_str() {
            "--only" => { only = Some(args[i + 1].clone()); i += 2; }
            "--jobs" => { jobs = args[i + 1].parse().unwrap(); i += 2; }
            "--worker" => { wk = Some((args[i + 1].parse().unwrap(), args[i + 2].parse().unwrap())); i += 3; }
            "--from" => { from = args[i + 1].parse().unwrap(); i += 2; }
            "--replay" => {
                let v: Value = serde_json::from_str(&std::fs::read_to_string(&args[i + 1]).expect("replay file")).expect("replay json");
                only = v["type_id"].as_str().map(|s| s.to_string());
                i += 2;
            }
            other => { eprintln!("unknown arg {}", other); std::process::exit(2); }
        }
    }
    if let Some((wi, wn)) = wk { worker(check, tier, wi, wn, from, only.as_deref()); return; }

    let t0 = Instant::now();
    let exe = std::env::current_exe().unwrap();
    let handles: Vec<_> = (0..jobs).map(|i| {
        let exe = exe.clone(); let check = check.to_string(); let only = only.clone();
        std::thread::spawn(move || run_slot(&exe, &check, tier, i, jobs, only.as_deref()))
    }).collect();
    let mut agg = Agg::default();
    let mut crashes = Vec::new();
    for h in handles {
        let (lines, cr) = h.join().unwrap();
        for l in &lines { agg.absorb(l); }
        crashes.extend(cr);
    }
    for (ty, how) in &crashes {
        if ty == "<worker>" { agg.machinery.push(format!("worker {}", how)); continue; }
        agg.viols.push((format!("{}|{}|abort:{}", check, ty, how), 1, json!({"check": check, "type_id": ty, "class": format!("abort:{}", how), "observed": "the process running the subject died (abort/segfault) while exploring this type"})));
    }
    if check == "C04" { c04_pairs(&mut agg); }
    agg.viols.sort_by(|a, b| a.0.cmp(&b.0));
    finish(check, tier, agg, t0, only.is_some());
}

fn finish(check: &str, tier: Tier, agg: Agg, t0: Instant, partial: bool) {
    let known = load_known(check);
    let replay_dir = format!("{}/evidence/replay", VERIF);
    let _ = std::fs::create_dir_all(&replay_dir);
    if !partial {
        // replay files of earlier runs of this check are stale
        if let Ok(rd) = std::fs::read_dir(&replay_dir) {
            for e in rd.flatten() { let n = e.file_name().to_string_lossy().to_string(); if n.starts_with(&format!("{}-{}", check, std::env::var("VERIF_PROFILE_TAG").map(|t| format!("{}-", t)).unwrap_or_default())) && (std::env::var("VERIF_PROFILE_TAG").is_ok() || !n.contains("-rel-")) && !n.contains("-P") && !n.contains("-build") && !n.contains("-loom") && !n.contains("-nommap") { let _ = std::fs::remove_file(e.path()); } }
        }
    }
    let mut new_viol = 0u64;
    let mut known_hit = Vec::new();
    let mut viol_lines = Vec::new();
    for (n, (key, count, detail)) in agg.viols.iter().enumerate() {
        if let Some((_, desc)) = known.iter().find(|(k, _)| k == key) {
            known_hit.push(key.clone());
            println!("KNOWN-FINDING: property={} {} [{}]", check, desc, key);
            continue;
        }
        new_viol += 1;
        let path = format!("{}/{}-{}{:04}.json", replay_dir, check, std::env::var("VERIF_PROFILE_TAG").map(|t| format!("{}-", t)).unwrap_or_default(), n);
        let mut d = detail.clone();
        if let Value::Object(m) = &mut d { m.insert("key".into(), json!(key)); m.insert("occurrences".into(), json!(count)); m.insert("tier".into(), json!(tier.name())); }
        std::fs::write(&path, serde_json::to_string_pretty(&d).unwrap()).unwrap();
        viol_lines.push(format!("VIOLATION property={} replay={}", check, path));
        if new_viol <= 40 { eprintln!("  violation {} x{}: {}", key, count, detail.get("observed").map(|v| v.to_string()).unwrap_or_default()); }
    }
    for l in &viol_lines { println!("{}", l); }
    let universe: Value = std::fs::read_to_string(format!("{}/harness/universe.json", VERIF)).ok().and_then(|s| serde_json::from_str(&s).ok()).unwrap_or(json!({}));
    let distinct_outcomes = agg.outcomes.len();
    let ev = json!({
        "property_id": check,
        "tier": tier.name(),
        "seed": std::env::var("VERIF_SEED").ok().and_then(|s| s.parse::<i64>().ok()).unwrap_or(0),
        "level": level_of(check),
        "coverage": {
            "evaluations": agg.evals,
            "distinct_nontrivial": agg.nontrivial,
            "rule": rule_of(check),
            "samples": agg.samples,
            "exhaustive": !partial,
            "types": agg.types,
            "transitions": agg.transitions,
            "traces_validated_against_impl": agg.evals,
            "outcomes": agg.outcomes,
            "distinct_outcome_classes": distinct_outcomes,
            "counters": agg.counters,
            "universe": universe,
            "known_findings_matched": known_hit,
            "new_violations": new_viol,
            "suspicious_single_outcome": distinct_outcomes <= 1,
        },
        "assumptions": assumptions_of(check),
        "wall_s": t0.elapsed().as_secs_f64(),
        "violations": new_viol,
    });
    if !partial && check != "GOLDGEN" {
        let tag = std::env::var("VERIF_PROFILE_TAG").map(|t| format!(".{}", t)).unwrap_or_default();
        std::fs::write(format!("{}/evidence/{}{}.json", VERIF, check, tag), serde_json::to_string_pretty(&ev).unwrap()).unwrap();
    }
    if check == "GOLDGEN" {
        let dir = std::env::var("VERIF_GOLDEN_OUT").unwrap_or_else(|_| "/verif".into());
        let mut hashes: Vec<&str> = agg.notes.iter().filter(|l| l.starts_with("HASH ")).map(|s| s.as_str()).collect();
        hashes.sort();
        let mut corpus: Vec<&str> = agg.notes.iter().filter_map(|l| l.strip_prefix("CORPUS ")).collect();
        corpus.sort();
        std::fs::create_dir_all(format!("{}/golden", dir)).unwrap();
        std::fs::create_dir_all(format!("{}/corpus", dir)).unwrap();
        std::fs::write(format!("{}/golden/hashes.txt", dir), hashes.join("\n") + "\n").unwrap();
        std::fs::write(format!("{}/corpus/pinned.tsv", dir), corpus.join("\n") + "\n").unwrap();
        eprintln!("golden: {} hashes, {} corpus files", hashes.len(), corpus.len());
        std::process::exit(0);
    }
    eprintln!("{} {}: types={} evaluations={} nontrivial={} transitions={} violations={} known={} wall={:.1}s",
        check, tier.name(), agg.types, agg.evals, agg.nontrivial, agg.transitions, new_viol, known_hit.len(), t0.elapsed().as_secs_f64());
    if !agg.machinery.is_empty() {
        for m in agg.machinery.iter().take(10) { eprintln!("MACHINERY: {}", m); }
        std::process::exit(2);
    }
    std::process::exit(if new_viol > 0 { 1 } else { 0 });
}

fn rule_of(check: &str) -> &'static str {
    match check {
        "C01" => "every (type, value) of the generated bounded universe (complete product of leaf alphabets / sequence lengths per type, see DESIGN 2.2) through serialize + deserialize_full, plus the inner API at every start-offset residue 0..63; a case is distinct by (type, abstract value)",
        "C02" => "every (type, value) of the universe through serialize + deserialize_eps on a 4096-aligned arena, compared with the original and with deserialize_full; distinct by (type, abstract value)",
        "C03" => "every (type, value) of the universe: borrowed spans of the eps result vs the model's borrowed Block events; non-trivial = the model trace has at least one borrowed block; allocation measured at scalings 1/8/64",
        "C06" => "every (type, value) of the universe: emitted bytes vs the independent reference encoder, header hash words vs the independent recipe; distinct by (type, abstract value)",
        "C07" => "every (type, value): byte counts of serialize/deserialize; first values of every type at every start-offset residue with a recording WriteWithNames (align/write_bytes events)",
        _ => "see DESIGN.md",
    }
}

fn assumptions_of(check: &str) -> Vec<&'static str> {
    let mut v = vec!["x86_64 little-endian Linux only", "bounded universe of types/values as generated by gen/universe.py (DESIGN 2)", "reference model in harness/vcore/src/model.rs; XXH3 and core::hash::Hash for str/usize are trusted"];
    if check == "C03" { v.push("allocation independence checked for scalings 1, 8, 64 only"); }
    v
}
