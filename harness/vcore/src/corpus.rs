//! Golden data written by the *pinned* build: header hashes per type and a corpus of
//! serialized streams with the abstract value each one encodes.

use std::collections::HashMap;
use std::sync::OnceLock;

pub struct Golden {
    /// type_id -> (type_hash, align_hash)
    pub hashes: HashMap<String, (u64, u64)>,
    /// type_id -> [(value debug string, bytes)]
    pub corpus: HashMap<String, Vec<(String, Vec<u8>)>>,
}

static GOLDEN: OnceLock<Golden> = OnceLock::new();

fn unhex(s: &str) -> Vec<u8> {
    (0..s.len() / 2).map(|i| u8::from_str_radix(&s[2 * i..2 * i + 2], 16).unwrap()).collect()
}

pub fn golden() -> &'static Golden {
    GOLDEN.get_or_init(|| {
        let mut g = Golden { hashes: HashMap::new(), corpus: HashMap::new() };
        if let Ok(s) = std::fs::read_to_string("/verif/golden/hashes.txt") {
            for l in s.lines() {
                // HASH <type_id> <th> <ah>   (type ids contain spaces: split from the right)
                let l = match l.strip_prefix("HASH ") { Some(l) => l, None => continue };
                let mut it = l.rsplitn(3, ' ');
                let ah = it.next().unwrap();
                let th = it.next().unwrap();
                let id = it.next().unwrap();
                g.hashes.insert(id.to_string(), (u64::from_str_radix(th, 16).unwrap(), u64::from_str_radix(ah, 16).unwrap()));
            }
        }
        if let Ok(s) = std::fs::read_to_string("/verif/corpus/pinned.tsv") {
            for l in s.lines() {
                let mut it = l.splitn(3, '\t');
                let (id, hexb, val) = match (it.next(), it.next(), it.next()) { (Some(a), Some(b), Some(c)) => (a, b, c), _ => continue };
                g.corpus.entry(id.to_string()).or_default().push((val.to_string(), unhex(hexb)));
            }
        }
        g
    })
}
