pub mod model;
pub mod dom;
pub mod env;
pub mod cx;
pub mod checks;

use checks::Ck;
use cx::Cx;
use dom::*;
use epserde::deser::{DeserType, Deserialize, DeserializeInner};
use epserde::ser::{Serialize, SerializeInner};
use epserde::traits::*;

/// One closed type of the universe, type-erased.
pub struct Entry {
    pub id: &'static str,
    pub run: fn(&str, &mut Cx),
    pub ty: fn() -> model::Ty,
}

pub fn entry<T>(id: &'static str) -> Entry
where
    T: Dom + Serialize + Deserialize + SerializeInner + DeserializeInner + TypeHash + AlignHash,
    for<'a> DeserType<'a, T>: EpsView,
{
    Entry { id, run: run_check::<T>, ty: T::ty }
}

fn run_check<T>(check: &str, cx: &mut Cx)
where
    T: Dom + Serialize + Deserialize + SerializeInner + DeserializeInner + TypeHash + AlignHash,
    for<'a> DeserType<'a, T>: EpsView,
{
    match check {
        "C01" => Ck::<T>::c01(cx),
        "C02" => Ck::<T>::c02(cx, false),
        "C03" => Ck::<T>::c02(cx, true),
        "C06" => Ck::<T>::c06(cx),
        "C07" => Ck::<T>::c07(cx),
        other => panic!("unknown generic check {}", other),
    }
}
