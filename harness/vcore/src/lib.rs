pub mod model;
pub mod dom;
pub mod env;
pub mod cx;
pub mod ops;
pub mod checks;
pub mod checks2;
pub mod checks3;
pub mod checks4;
pub mod corpus;

use cx::Cx;
use dom::*;
use epserde::deser::{DeserType, Deserialize, DeserializeInner};
use epserde::ser::{Serialize, SerializeInner};
use epserde::traits::*;
use ops::{Ops, TypeOps};

/// One closed type of the universe, type-erased.
pub struct Entry {
    pub id: &'static str,
    pub ops: Box<dyn TypeOps>,
}

pub fn entry<T>(id: &'static str) -> Entry
where
    T: Dom + Serialize + Deserialize + SerializeInner + DeserializeInner + TypeHash + AlignHash,
    for<'a> DeserType<'a, T>: EpsView + Send + Sync,
{
    Entry { id, ops: Box::new(Ops::<T>::new()) }
}

pub fn run_check(t: &dyn TypeOps, check: &str, cx: &mut Cx) {
    let deep = cx.tier == cx::Tier::Thorough && t.ty().depth() <= 1;
    match check {
        "C01" => checks::c01(t, cx),
        "C02" => checks::c02(t, cx, false),
        "C03" => checks::c02(t, cx, true),
        "C06" => checks::c06(t, cx),
        "C07" => checks::c07(t, cx),
        "GOLDGEN" => checks::goldgen(t, cx),
        "C10" => checks2::c10(t, cx),
        "C11" => checks2::c11(t, cx),
        "C12" => checks2::c12(t, cx),
        "C13" => checks2::c13(t, cx, if deep { 2 } else { 1 }),
        "C14" => checks2::c14(t, cx, if deep { 2 } else { 1 }),
        "C15" => checks2::c15(t, cx),
        "C18" => checks2::c18(t, cx),
        "C08" => checks3::c08(t, cx),
        "C09" => checks3::c09(t, cx),
        other => panic!("unknown generic check {}", other),
    }
}
