//! C04: bytes written as one type are never accepted as a different type.

use crate::checks::*;
use crate::cx::*;
use crate::env::*;
use crate::model::*;
use serde_json::json;

pub struct Member<'a> { pub id: &'a str, pub family: &'a str, pub ops: &'a dyn TypeOps }

/// For member `ti`: emit its (hashes, signature) and cross-deserialize its bytes as every
/// partner type: all members of the same mutant family, or the next `band` universe types.
pub fn c04(all: &[Member], ti: usize, band: usize, cx: &mut Cx) {
    let t = &all[ti];
    let ty = t.ops.ty();
    let (th, ah) = t.ops.hashes();
    let st = sig(&ty);
    cx.notes.push(format!("SIG\t{}\t{:016x}\t{:016x}\t{}\t{}", t.id, th, ah, t.family, st));
    cx.evals += 1;
    if th != type_hash(&ty) || ah != align_hash(&ty) { cx.violate("hashes-differ-from-recipe", json!({"ty": ty.show()})); }
    let (n, _, _) = t.ops.build_domain(8);
    if n == 0 { return; }
    let i = n - 1;
    let want = t.ops.val(i);
    let bytes = match t.ops.ser(i) { Out::Ok((b, _)) => b, _ => { cx.outcome("skipped-unserializable"); return; } };
    cx.case(case_hash(cx, &want), true);
    let partners: Vec<usize> = if t.family.is_empty() {
        let uni: Vec<usize> = (0..all.len()).filter(|k| all[*k].family.is_empty()).collect();
        let pos = uni.iter().position(|k| *k == ti).unwrap();
        (1..=band.min(uni.len() - 1)).map(|d| uni[(pos + d) % uni.len()]).collect()
    } else {
        (0..all.len()).filter(|k| *k != ti && all[*k].family == t.family).collect()
    };
    let mut arena = Arena::new(bytes.len() + 4096);
    for ui in partners {
        let u = &all[ui];
        let su = sig(&u.ops.ty());
        cx.evals += 2;
        cx.transitions += 2;
        let f = u.ops.full(&bytes).map(|x| x.0);
        let placed = arena.place(0, &bytes);
        let e = u.ops.eps(placed).map(|x| x.0);
        for (mode, o) in [("full", &f), ("eps", &e)] {
            if su == st {
                cx.outcome("same-structure");
                if !matches!(o, Out::Ok(v) if *v == want) {
                    cx.violate(&format!("interchangeable-types-rejected-{}", mode), json!({"written_as": t.id, "read_as": u.id, "observed": o.describe()}));
                }
            } else {
                let ok = matches!(o, Out::Err(e) if e.starts_with("WrongTypeHash") || e.starts_with("WrongAlignHash"));
                cx.outcome(if ok { "different-structure-refused" } else { "different-structure-NOT-refused" });
                if !ok {
                    let got = match o { Out::Ok(_) => "accepted-as-a-value".to_string(), Out::Err(e) => format!("gives-{}", e.split('(').next().unwrap()), Out::Panic(p) => format!("panics-{}", panic_class(p)) };
                    cx.violate(&format!("read-as|{}|{}-{}", u.id, mode, got), json!({"written_as": t.id, "read_as": u.id, "sig_written": st, "sig_read": su, "value": vdesc(i, &want), "observed": o.describe()}));
                }
            }
        }
    }
    if ti % 50 == 0 { cx.sample(json!({"written_as": t.id, "family": t.family, "type_hash": format!("{:016x}", th), "align_hash": format!("{:016x}", ah), "signature": st})); }
}
