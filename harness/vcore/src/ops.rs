//! Type-erased operations on one closed type of the universe. Only these small shims are
//! monomorphised per type; the check algorithms (checks.rs / checks2.rs) are ordinary code
//! over `&dyn TypeOps`.

use crate::dom::*;
use crate::env::*;
use crate::model::*;
use core::marker::PhantomData;
use epserde::deser::{self, DeserType, Deserialize, DeserializeInner, ReaderWithPos, SliceWithPos};
use epserde::ser::{Serialize, SerializeInner, WriteNoStd, WriteWithNames, WriteWithPos, WriterWithPos};
use epserde::traits::*;
use std::cell::RefCell;
use std::io::Cursor;

pub fn err_kind(e: &deser::Error) -> String {
    use deser::Error::*;
    match e {
        FileOpenError(_) => "FileOpenError".into(),
        ReadError => "ReadError".into(),
        EndiannessError => "EndiannessError".into(),
        AlignmentError => "AlignmentError".into(),
        MajorVersionMismatch(v) => format!("MajorVersionMismatch({})", v),
        MinorVersionMismatch(v) => format!("MinorVersionMismatch({})", v),
        UsizeSizeMismatch(v) => format!("UsizeSizeMismatch({})", v),
        MagicCookieError(v) => format!("MagicCookieError({:#x})", v),
        InvalidTag(v) => format!("InvalidTag({})", v),
        WrongTypeHash { ser_type_hash, self_type_hash, ser_type_name, self_type_name } => format!("WrongTypeHash(ser={:#x},self={:#x},ser_name={},self_name={})", ser_type_hash, self_type_hash, ser_type_name, self_type_name),
        WrongAlignHash { ser_align_hash, self_align_hash, ser_type_name, self_type_name } => format!("WrongAlignHash(ser={:#x},self={:#x},ser_name={},self_name={})", ser_align_hash, self_align_hash, ser_type_name, self_type_name),
    }
}

/// Outcome of running a piece of the subject.
#[derive(Clone, Debug, PartialEq, Eq)]
pub enum Out<V> { Ok(V), Err(String), Panic(String) }

impl<V> Out<V> {
    pub fn class(&self) -> String {
        match self {
            Out::Ok(_) => "ok".into(),
            Out::Err(e) => format!("err:{}", e.split('(').next().unwrap_or(e)),
            Out::Panic(m) => format!("panic:{}", panic_class(m)),
        }
    }
    pub fn describe(&self) -> String {
        match self { Out::Ok(_) => "Ok".into(), Out::Err(e) => format!("Err({})", e), Out::Panic(m) => format!("panic: {}", m) }
    }
    pub fn map<U>(self, f: impl FnOnce(V) -> U) -> Out<U> {
        match self { Out::Ok(v) => Out::Ok(f(v)), Out::Err(e) => Out::Err(e), Out::Panic(p) => Out::Panic(p) }
    }
}

fn out3<V>(r: Result<Result<V, String>, String>) -> Out<V> {
    match r { Ok(Ok(v)) => Out::Ok(v), Ok(Err(e)) => Out::Err(e), Err(p) => Out::Panic(p) }
}

/// Recording `WriteWithNames`: forwards to a `WriterWithPos` and logs align / write_bytes.
pub struct RecWriter<'a, W: WriteNoStd> {
    pub inner: WriterWithPos<'a, W>,
    /// (pos_before, max_size_of, pos_after)
    pub aligns: Vec<(usize, usize, usize)>,
    /// (pos, len, max_size_of, align_of, size_of)
    pub blocks: Vec<(usize, usize, usize, usize, usize)>,
}
impl<'a, W: WriteNoStd> RecWriter<'a, W> {
    pub fn new(w: &'a mut W) -> Self { RecWriter { inner: WriterWithPos::new(w), aligns: vec![], blocks: vec![] } }
}
impl<W: WriteNoStd> WriteNoStd for RecWriter<'_, W> {
    fn write_all(&mut self, buf: &[u8]) -> epserde::ser::Result<()> { self.inner.write_all(buf) }
    fn flush(&mut self) -> epserde::ser::Result<()> { self.inner.flush() }
}
impl<W: WriteNoStd> WriteWithPos for RecWriter<'_, W> {
    fn pos(&self) -> usize { self.inner.pos() }
}
impl<W: WriteNoStd> WriteWithNames for RecWriter<'_, W> {
    fn align<V: MaxSizeOf>(&mut self) -> epserde::ser::Result<()> {
        let before = self.pos();
        let r = self.inner.align::<V>();
        let after = self.pos();
        self.aligns.push((before, V::max_size_of(), after));
        r
    }
    fn write<V: SerializeInner>(&mut self, _field_name: &str, value: &V) -> epserde::ser::Result<()> {
        value._serialize_inner(self)
    }
    fn write_bytes<V: SerializeInner + ZeroCopy>(&mut self, value: &[u8]) -> epserde::ser::Result<()> {
        self.blocks.push((self.pos(), value.len(), V::max_size_of(), core::mem::align_of::<V>(), core::mem::size_of::<V>()));
        self.inner.write_all(value)
    }
}

#[derive(Debug, Default, Clone)]
pub struct InnerSer {
    pub bytes: Vec<u8>,
    pub aligns: Vec<(usize, usize, usize)>,
    pub blocks: Vec<(usize, usize, usize, usize, usize)>,
    pub endpos: usize,
}

#[derive(Debug, Clone)]
pub struct SchemaOut {
    pub bytes: Vec<u8>,
    /// (field, offset, size, align)
    pub rows: Vec<(String, usize, usize, usize)>,
    pub csv: Result<usize, String>,
    pub debug: Result<usize, String>,
}

pub trait TypeOps {
    fn ty(&self) -> Ty;
    fn type_name(&self) -> &'static str;
    /// Build (and cache) the value domain; returns (count, width, degraded).
    fn build_domain(&self, cap: usize) -> (usize, u8, bool);
    fn len(&self) -> usize;
    fn val(&self, i: usize) -> Val;
    fn owned(&self, i: usize) -> Vec<usize>;
    fn hashes(&self) -> (u64, u64);
    fn ser(&self, i: usize) -> Out<(Vec<u8>, usize)>;
    /// serialize value i scaled by k; returns bytes and the scaled abstract value
    fn ser_scaled(&self, i: usize, k: usize) -> Out<(Vec<u8>, Val)>;
    fn full(&self, bytes: &[u8]) -> Out<(Val, usize)>;
    fn eps(&self, placed: &[u8]) -> Out<(Val, Vec<Span>)>;
    /// allocation performed by deserialize_eps alone
    fn eps_alloc(&self, placed: &[u8]) -> Out<(AllocSnap, Val)>;
    /// check_header + _deserialize_eps_inner on a SliceWithPos: consumed byte count
    fn eps_consumed(&self, placed: &[u8]) -> Out<usize>;
    /// `_serialize_inner` after `r` dummy bytes, through a recording writer
    fn inner_ser(&self, i: usize, r: usize) -> Out<InnerSer>;
    /// `_deserialize_full_inner` after skipping `r` bytes: (value, final pos)
    fn inner_full(&self, buf: &[u8], r: usize) -> Out<(Val, usize)>;
    /// `_deserialize_eps_inner` on `SliceWithPos{data: &placed[r..], pos: r}`: (value, final pos)
    fn inner_eps(&self, placed: &[u8], r: usize) -> Out<(Val, usize)>;
    fn ser_script(&self, i: usize, w: &mut ScriptWriter) -> Out<usize>;
    /// the same through `serialize_with_schema`; returns the number of accepted bytes
    fn ser_script_schema(&self, i: usize, w: &mut ScriptWriter) -> Out<usize>;
    fn full_script(&self, rd: &mut ScriptReader) -> Out<Val>;
    fn ser_schema(&self, i: usize) -> Out<SchemaOut>;
    /// A `SchemaWriter` created on a writer that has already advanced by `r` bytes (a preamble
    /// of 0xA5), then the value written as "ROOT": rows and the whole sink content.
    fn inner_schema(&self, i: usize, r: usize) -> Out<SchemaOut>;
    /// `store` value i to a file.
    fn store(&self, i: usize, path: &str) -> Out<()>;
    /// `store` value i scaled by `k` (see `Dom::scale`) to a file.
    fn store_scaled(&self, i: usize, k: usize, path: &str) -> Out<()>;
    /// Load with loader 0 load_full / 1 load_mem / 2 load_mmap / 3 mmap / 4 `MemCase::encase`
    /// of an ε-copy from memory, then apply the
    /// history `steps` (0 move, 1 box/unbox, 2 swap with a second load, 3 thread round trip,
    /// 4 Arc share with a reader thread, 5 channel round trip), observing after every step
    /// (`[255]`: load and drop without observing; `[254]`: observe spans and region but not the
    /// value, with `region_bytes` = the last 64 bytes of the region).
    fn load_history(&self, loader: u8, path: &str, flags: u32, steps: &[u8]) -> Out<Vec<LoadObs>>;
}

#[derive(Debug, Clone)]
pub struct LoadObs {
    pub val: Val,
    pub spans: Vec<Span>,
    /// (kind 0 none / 1 heap / 2 mmap, base, len)
    pub region: (u8, usize, usize),
    pub region_hash: u64,
    /// first bytes of the region (up to 1 MiB) for content comparison
    pub region_bytes: Vec<u8>,
}

/// A writer that keeps what it is given until it is flushed.
#[derive(Default)]
pub struct Staging { pub staged: Vec<u8>, pub delivered: Vec<u8> }
impl std::io::Write for Staging {
    fn write(&mut self, b: &[u8]) -> std::io::Result<usize> { self.staged.extend_from_slice(b); Ok(b.len()) }
    fn flush(&mut self) -> std::io::Result<()> { let s = core::mem::take(&mut self.staged); self.delivered.extend_from_slice(&s); Ok(()) }
}

pub fn anyhow_kind(e: &anyhow::Error) -> String {
    if let Some(d) = e.downcast_ref::<deser::Error>() { return err_kind(d); }
    if let Some(io) = e.downcast_ref::<std::io::Error>() { return format!("io:{:?}", io.kind()); }
    format!("other:{}", e.to_string().chars().take(60).collect::<String>())
}

#[inline(never)]
fn pass<X>(x: X) -> X { x }

fn observe<S: EpsView>(c: &epserde::deser::MemCase<S>) -> LoadObs {
    let mut spans = vec![];
    (**c).spans(&mut spans);
    let (kind, base, len) = c.__verif_backend();
    let bytes: &[u8] = if kind == 0 { &[] } else { unsafe { core::slice::from_raw_parts(base, len) } };
    LoadObs { val: (**c).eps_val(), spans, region: (kind, base as usize, len), region_hash: xxhash_rust::xxh3::xxh3_64(bytes), region_bytes: bytes[..bytes.len().min(1 << 20)].to_vec() }
}

pub struct Ops<T> { vals: RefCell<Vec<T>>, _p: PhantomData<T> }

impl<T> Ops<T> { pub fn new() -> Self { Ops { vals: RefCell::new(vec![]), _p: PhantomData } } }

impl<T> TypeOps for Ops<T>
where
    T: Dom + Serialize + Deserialize + SerializeInner + DeserializeInner + TypeHash + AlignHash,
    for<'a> DeserType<'a, T>: EpsView + Send + Sync,
{
    fn ty(&self) -> Ty { T::ty() }
    fn type_name(&self) -> &'static str { core::any::type_name::<<T as SerializeInner>::SerType>() }
    fn build_domain(&self, cap: usize) -> (usize, u8, bool) {
        let (v, w, d) = domain::<T>(cap);
        let n = v.len();
        *self.vals.borrow_mut() = v;
        (n, w, d)
    }
    fn len(&self) -> usize { self.vals.borrow().len() }
    fn val(&self, i: usize) -> Val { self.vals.borrow()[i].to_val() }
    fn owned(&self, i: usize) -> Vec<usize> {
        let mut o = vec![];
        self.vals.borrow()[i].owned(&mut o);
        o.into_iter().map(|(a, _)| a).collect()
    }
    fn hashes(&self) -> (u64, u64) {
        use core::hash::Hasher;
        let mut th = xxhash_rust::xxh3::Xxh3::new();
        <T as TypeHash>::type_hash(&mut th);
        let mut ah = xxhash_rust::xxh3::Xxh3::new();
        <T as AlignHash>::align_hash(&mut ah, &mut 0);
        (th.finish(), ah.finish())
    }
    fn ser(&self, i: usize) -> Out<(Vec<u8>, usize)> {
        let vals = self.vals.borrow();
        let v = &vals[i];
        let mut buf: Vec<u8> = Vec::new();
        match guarded(|| v.serialize(&mut buf)) {
            Ok(Ok(n)) => Out::Ok((buf, n)),
            Ok(Err(e)) => Out::Err(format!("{:?}", e)),
            Err(p) => Out::Panic(p),
        }
    }
    fn ser_scaled(&self, i: usize, k: usize) -> Out<(Vec<u8>, Val)> {
        let vals = self.vals.borrow();
        let sv = vals[i].scale(k);
        let mut buf: Vec<u8> = Vec::new();
        match guarded(|| sv.serialize(&mut buf)) {
            Ok(Ok(_)) => Out::Ok((buf, sv.to_val())),
            Ok(Err(e)) => Out::Err(format!("{:?}", e)),
            Err(p) => Out::Panic(p),
        }
    }
    fn full(&self, bytes: &[u8]) -> Out<(Val, usize)> {
        let mut cur = Cursor::new(bytes);
        match guarded(|| T::deserialize_full(&mut cur).map(|x| x.to_val())) {
            Ok(Ok(v)) => Out::Ok((v, cur.position() as usize)),
            Ok(Err(e)) => Out::Err(err_kind(&e)),
            Err(p) => Out::Panic(p),
        }
    }
    fn eps(&self, placed: &[u8]) -> Out<(Val, Vec<Span>)> {
        match guarded(|| T::deserialize_eps(placed).map(|x| { let mut s = vec![]; x.spans(&mut s); (x.eps_val(), s) })) {
            Ok(Ok(v)) => Out::Ok(v),
            Ok(Err(e)) => Out::Err(err_kind(&e)),
            Err(p) => Out::Panic(p),
        }
    }
    fn eps_alloc(&self, placed: &[u8]) -> Out<(AllocSnap, Val)> {
        out3(guarded(|| {
            let a = alloc_snap();
            let r = T::deserialize_eps(placed);
            let d = alloc_delta(a);
            r.map(|x| (d, x.eps_val())).map_err(|e| err_kind(&e))
        }))
    }
    fn eps_consumed(&self, placed: &[u8]) -> Out<usize> {
        out3(guarded(|| -> Result<usize, String> {
            let mut b = SliceWithPos::new(placed);
            deser::check_header::<T>(&mut b).map_err(|e| err_kind(&e))?;
            let _x = T::_deserialize_eps_inner(&mut b).map_err(|e| err_kind(&e))?;
            Ok(b.pos)
        }))
    }
    fn inner_ser(&self, i: usize, r: usize) -> Out<InnerSer> {
        let vals = self.vals.borrow();
        let v = &vals[i];
        out3(guarded(|| {
            let mut buf: Vec<u8> = Vec::new();
            let (res, aligns, blocks, endpos) = {
                let mut w = RecWriter::new(&mut buf);
                w.write_all(&vec![0u8; r]).unwrap();
                let res = v._serialize_inner(&mut w);
                (res, w.aligns, w.blocks, w.inner.pos())
            };
            res.map_err(|e| format!("{:?}", e))?;
            Ok(InnerSer { bytes: buf, aligns, blocks, endpos })
        }))
    }
    fn inner_full(&self, buf: &[u8], r: usize) -> Out<(Val, usize)> {
        out3(guarded(|| {
            let mut cur = Cursor::new(buf);
            let mut rd = ReaderWithPos::new(&mut cur);
            let mut skip = vec![0u8; r];
            epserde::deser::ReadNoStd::read_exact(&mut rd, &mut skip).map_err(|e| err_kind(&e))?;
            let got = T::_deserialize_full_inner(&mut rd).map_err(|e| err_kind(&e))?;
            Ok((got.to_val(), epserde::deser::ReadWithPos::pos(&rd)))
        }))
    }
    fn inner_eps(&self, placed: &[u8], r: usize) -> Out<(Val, usize)> {
        out3(guarded(|| {
            let mut sp = SliceWithPos { data: &placed[r..], pos: r };
            let x = T::_deserialize_eps_inner(&mut sp).map_err(|e| err_kind(&e))?;
            Ok((x.eps_val(), sp.pos))
        }))
    }
    fn ser_script(&self, i: usize, w: &mut ScriptWriter) -> Out<usize> {
        let vals = self.vals.borrow();
        let v = &vals[i];
        out3(guarded(|| v.serialize(w).map_err(|e| format!("{:?}", e))))
    }
    fn ser_script_schema(&self, i: usize, w: &mut ScriptWriter) -> Out<usize> {
        let vals = self.vals.borrow();
        let v = &vals[i];
        out3(guarded(|| { v.serialize_with_schema(&mut *w).map_err(|e| format!("{:?}", e))?; Ok(w.accepted.len()) }))
    }
    fn full_script(&self, rd: &mut ScriptReader) -> Out<Val> {
        out3(guarded(|| T::deserialize_full(rd).map(|x| x.to_val()).map_err(|e| err_kind(&e))))
    }
    fn inner_schema(&self, i: usize, r: usize) -> Out<SchemaOut> {
        let vals = self.vals.borrow();
        let v = &vals[i];
        out3(guarded(|| {
            let mut buf: Vec<u8> = Vec::new();
            let schema = {
                let mut w = WriterWithPos::new(&mut buf);
                w.write_all(&vec![0xA5u8; r]).map_err(|e| format!("{:?}", e))?;
                let mut sw = epserde::ser::SchemaWriter::new(&mut w);
                sw.write("ROOT", v).map_err(|e| format!("{:?}", e))?;
                sw.schema
            };
            let rows = schema.0.iter().map(|r| (r.field.clone(), r.offset, r.size, r.align)).collect();
            let csv = guarded(|| schema.to_csv().lines().count());
            let debug = guarded(|| schema.debug(&buf).lines().count());
            Ok(SchemaOut { bytes: buf, rows, csv, debug })
        }))
    }
    fn ser_schema(&self, i: usize) -> Out<SchemaOut> {
        let vals = self.vals.borrow();
        let v = &vals[i];
        out3(guarded(|| {
            // a sink that hands its data over only when it is flushed: what it holds after the
            // call returns is the stream that the schema describes
            let mut sink = Staging::default();
            let schema = v.serialize_with_schema(&mut sink).map_err(|e| format!("{:?}", e))?;
            let buf: Vec<u8> = sink.delivered;
            let rows = schema.0.iter().map(|r| (r.field.clone(), r.offset, r.size, r.align)).collect();
            let csv = guarded(|| schema.to_csv().lines().count());
            let debug = guarded(|| schema.debug(&buf).lines().count());
            Ok(SchemaOut { bytes: buf, rows, csv, debug })
        }))
    }
    fn store(&self, i: usize, path: &str) -> Out<()> {
        let vals = self.vals.borrow();
        let v = &vals[i];
        out3(guarded(|| v.store(path).map_err(|e| format!("{:?}", e))))
    }
    fn store_scaled(&self, i: usize, k: usize, path: &str) -> Out<()> {
        let vals = self.vals.borrow();
        let v = vals[i].scale(k);
        out3(guarded(|| v.store(path).map_err(|e| format!("{:?}", e))))
    }
    fn load_history(&self, loader: u8, path: &str, flags: u32, steps: &[u8]) -> Out<Vec<LoadObs>> {
        use epserde::deser::{Flags, MemCase};
        let fl = Flags::from_bits_truncate(flags);
        if loader == 0 {
            return out3(guarded(|| T::load_full(path).map(|x| vec![LoadObs { val: x.to_val(), spans: vec![], region: (0, 0, 0), region_hash: 0, region_bytes: vec![] }]).map_err(|e| anyhow_kind(&e))));
        }
        // loader 4: no backend at all, `MemCase::encase` of a structure ε-copied from memory that
        // the harness keeps alive (and aligned) for the whole history
        let mut arena = Arena::new(if loader == 4 { std::fs::metadata(path).map(|m| m.len() as usize).unwrap_or(0) + 4096 } else { 64 });
        let kept: &'static [u8] = if loader == 4 {
            let file = match std::fs::read(path) { Ok(f) => f, Err(e) => return Out::Err(format!("io:{:?}", e.kind())) };
            // SAFETY: `arena` is dropped at the end of this function, after every case built on it
            unsafe { core::mem::transmute::<&[u8], &'static [u8]>(arena.place(0, &file)) }
        } else { &[] };
        let load = move || -> anyhow::Result<MemCase<DeserType<'static, T>>> {
            match loader { 1 => T::load_mem(path), 2 => T::load_mmap(path, fl), 3 => T::mmap(path, fl), _ => Ok(MemCase::encase(T::deserialize_eps(kept)?)) }
        };
        out3(guarded(|| -> Result<Vec<LoadObs>, String> {
            let mut c = load().map_err(|e| anyhow_kind(&e))?;
            // `[255]`: load and drop only. Used on corrupt and truncated files, where the two
            // zero-extending loaders may legitimately succeed with bytes that are not a valid
            // value of the type (a zero discriminant of `enum { A = 3, .. }`): looking at such a
            // value would be the harness's own undefined behaviour.
            if steps == [255] { drop(c); return Ok(vec![]); }
            // `[254]`: one observation of spans and region only (very large files)
            if steps == [254] {
                let mut spans = vec![];
                (*c).spans(&mut spans);
                let (kind, base, len) = c.__verif_backend();
                let bytes: &[u8] = if kind == 0 { &[] } else { unsafe { core::slice::from_raw_parts(base, len) } };
                let o = LoadObs { val: Val::Seq(vec![]), spans, region: (kind, base as usize, len), region_hash: xxhash_rust::xxh3::xxh3_64(bytes), region_bytes: bytes[bytes.len().saturating_sub(64)..].to_vec() };
                drop(c);
                return Ok(vec![o]);
            }
            let mut obs = vec![observe(&c)];
            for st in steps {
                match st {
                    0 => { c = pass(c); }
                    1 => { let b = Box::new(c); let b = pass(b); c = *b; }
                    2 => { let mut other = load().map_err(|e| format!("second load: {}", anyhow_kind(&e)))?; core::mem::swap(&mut c, &mut other); drop(other); }
                    3 => {
                        let (c2, v) = std::thread::spawn(move || { let v = (*c).eps_val(); (c, v) }).join().map_err(|_| "reader thread panicked".to_string())?;
                        c = c2;
                        if v != obs[0].val { return Err("value read on another thread differs".into()); }
                    }
                    4 => {
                        let a = std::sync::Arc::new(c);
                        let a2 = a.clone();
                        let h = std::thread::spawn(move || { let v = (**a2).eps_val(); drop(a2); v });
                        let here = (**a).eps_val();
                        let there = h.join().map_err(|_| "reader thread panicked".to_string())?;
                        if here != there || here != obs[0].val { return Err("value read through Arc on two threads differs".into()); }
                        c = std::sync::Arc::try_unwrap(a).map_err(|_| "Arc still shared".to_string())?;
                    }
                    _ => {
                        let (tx, rx) = std::sync::mpsc::channel();
                        let (tx2, rx2) = std::sync::mpsc::channel();
                        let h = std::thread::spawn(move || { let c: MemCase<DeserType<'static, T>> = rx.recv().unwrap(); let v = (*c).eps_val(); tx2.send((c, v)).unwrap(); });
                        tx.send(c).map_err(|_| "send failed".to_string())?;
                        let (c2, v) = rx2.recv().map_err(|_| "recv failed".to_string())?;
                        h.join().map_err(|_| "thread panicked".to_string())?;
                        c = c2;
                        if v != obs[0].val { return Err("value read after channel transfer differs".into()); }
                    }
                }
                obs.push(observe(&c));
            }
            drop(c);
            Ok(obs)
        }))
    }
}
