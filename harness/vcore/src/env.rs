//! Controlled environment: panic capture, tracking allocator, aligned arena, scripted
//! writers/readers with choice points.

use std::alloc::{GlobalAlloc, Layout, System};
use std::cell::{Cell, RefCell, UnsafeCell};
use std::panic::{catch_unwind, AssertUnwindSafe};
use std::sync::atomic::{AtomicI64, AtomicU64, Ordering};

// ------------------------------------------------------------------ panics

thread_local! {
    static LAST_PANIC: RefCell<Option<String>> = const { RefCell::new(None) };
}

pub fn install_panic_hook() {
    std::panic::set_hook(Box::new(|info| {
        let msg = if let Some(s) = info.payload().downcast_ref::<&str>() { s.to_string() }
            else if let Some(s) = info.payload().downcast_ref::<String>() { s.clone() }
            else { "<non-string panic>".to_string() };
        let loc = info.location().map(|l| format!("{}:{}", l.file(), l.line())).unwrap_or_default();
        LAST_PANIC.with(|p| *p.borrow_mut() = Some(format!("{} @ {}", msg, loc)));
    }));
}

/// Run `f`, turning a panic into `Err(message @ location)`.
pub fn guarded<R>(f: impl FnOnce() -> R) -> Result<R, String> {
    match catch_unwind(AssertUnwindSafe(f)) {
        Ok(r) => Ok(r),
        Err(_) => Err(LAST_PANIC.with(|p| p.borrow_mut().take()).unwrap_or_else(|| "<panic>".into())),
    }
}

/// Coarse class of a panic message (stable across line-number churn).
pub fn panic_class(msg: &str) -> &'static str {
    if msg.contains("out of range") || msg.contains("out of bounds") || msg.contains("index") && msg.contains("len") { "bounds" }
    else if msg.contains("overflow") { "overflow" }
    else if msg.contains("unwrap") || msg.contains("called `Option") || msg.contains("called `Result") { "unwrap" }
    else if msg.contains("exhausted range") { "exhausted-range-assert" }
    else if msg.contains("declared as zero-copy") { "not-zero-copy" }
    else if msg.contains("misaligned") || msg.contains("unsafe precondition") { "unsafe-precondition" }
    else if msg.contains("assertion") { "assert" }
    else { "other" }
}

// ------------------------------------------------------------------ allocator

pub struct Tracking;

thread_local! {
    static T_BYTES: Cell<u64> = const { Cell::new(0) };
    static T_CALLS: Cell<u64> = const { Cell::new(0) };
    static T_FREES: Cell<u64> = const { Cell::new(0) };
    static PROT: UnsafeCell<[usize; 512]> = const { UnsafeCell::new([0; 512]) };
    static PROT_N: Cell<usize> = const { Cell::new(0) };
    static PROT_HITS: Cell<usize> = const { Cell::new(0) };
}
static G_LIVE: AtomicI64 = AtomicI64::new(0);
static G_LIVE_N: AtomicI64 = AtomicI64::new(0);
static G_ALLOCS: AtomicU64 = AtomicU64::new(0);
static POISON: std::sync::atomic::AtomicBool = std::sync::atomic::AtomicBool::new(false);

/// When on, every fresh heap block is filled with 0xAA, so that memory the subject forgets to
/// initialise is never accidentally zero.
pub fn set_poison(on: bool) { POISON.store(on, Ordering::Relaxed); }

unsafe impl GlobalAlloc for Tracking {
    unsafe fn alloc(&self, l: Layout) -> *mut u8 {
        let p = System.alloc(l);
        if !p.is_null() {
            if POISON.load(Ordering::Relaxed) { std::ptr::write_bytes(p, 0xAA, l.size()); }
            let _ = T_BYTES.try_with(|c| c.set(c.get() + l.size() as u64));
            let _ = T_CALLS.try_with(|c| c.set(c.get() + 1));
            G_LIVE.fetch_add(l.size() as i64, Ordering::Relaxed);
            G_LIVE_N.fetch_add(1, Ordering::Relaxed);
            G_ALLOCS.fetch_add(1, Ordering::Relaxed);
        }
        p
    }
    unsafe fn dealloc(&self, p: *mut u8, l: Layout) {
        let n = PROT_N.try_with(|c| c.get()).unwrap_or(0);
        if n > 0 {
            let hit = PROT.try_with(|a| { let a = &*a.get(); a[..n].contains(&(p as usize)) }).unwrap_or(false);
            if hit {
                // freeing protected (borrowed source) memory: record, do not forward
                let _ = PROT_HITS.try_with(|c| c.set(c.get() + 1));
                return;
            }
        }
        let _ = T_FREES.try_with(|c| c.set(c.get() + 1));
        G_LIVE.fetch_sub(l.size() as i64, Ordering::Relaxed);
        G_LIVE_N.fetch_sub(1, Ordering::Relaxed);
        System.dealloc(p, l)
    }
    unsafe fn realloc(&self, p: *mut u8, l: Layout, new: usize) -> *mut u8 {
        let q = System.realloc(p, l, new);
        if !q.is_null() {
            let _ = T_BYTES.try_with(|c| c.set(c.get() + new as u64));
            let _ = T_CALLS.try_with(|c| c.set(c.get() + 1));
            G_LIVE.fetch_add(new as i64 - l.size() as i64, Ordering::Relaxed);
        }
        q
    }
}

#[derive(Clone, Copy, Debug, PartialEq, Eq, Default)]
pub struct AllocSnap { pub bytes: u64, pub calls: u64, pub frees: u64 }

pub fn alloc_snap() -> AllocSnap {
    AllocSnap { bytes: T_BYTES.with(|c| c.get()), calls: T_CALLS.with(|c| c.get()), frees: T_FREES.with(|c| c.get()) }
}
pub fn alloc_delta(a: AllocSnap) -> AllocSnap {
    let b = alloc_snap();
    AllocSnap { bytes: b.bytes - a.bytes, calls: b.calls - a.calls, frees: b.frees - a.frees }
}
/// Process-wide live heap (bytes, blocks).
pub fn live_heap() -> (i64, i64) { (G_LIVE.load(Ordering::Relaxed), G_LIVE_N.load(Ordering::Relaxed)) }

/// Protect heap blocks (by start address) on this thread: a `dealloc` of one of them is
/// recorded and not performed. Returns the number of such attempts when unprotected.
pub fn protect(ptrs: &[usize]) {
    PROT.with(|a| { let a = unsafe { &mut *a.get() }; let n = ptrs.len().min(512); a[..n].copy_from_slice(&ptrs[..n]); PROT_N.with(|c| c.set(n)); });
    PROT_HITS.with(|c| c.set(0));
}
pub fn unprotect() -> usize {
    PROT_N.with(|c| c.set(0));
    PROT_HITS.with(|c| c.replace(0))
}

// ------------------------------------------------------------------ guarded arena

/// Read-write pages followed by one inaccessible page: a slice placed at the END of the
/// accessible part cannot be over-read by a single byte without a SIGSEGV (which kills the
/// worker and is attributed to the type being explored).
pub struct GuardArena { base: *mut u8, len: usize }

impl GuardArena {
    pub fn new(cap: usize) -> Self {
        let pages = cap.div_ceil(4096).max(1);
        let total = (pages + 1) * 4096;
        let base = unsafe { libc::mmap(core::ptr::null_mut(), total, libc::PROT_READ | libc::PROT_WRITE, libc::MAP_PRIVATE | libc::MAP_ANONYMOUS, -1, 0) };
        assert!(base != libc::MAP_FAILED, "mmap of the guarded arena failed");
        let r = unsafe { libc::mprotect((base as *mut u8).add(pages * 4096) as *mut libc::c_void, 4096, libc::PROT_NONE) };
        assert_eq!(r, 0, "mprotect of the guard page failed");
        GuardArena { base: base as *mut u8, len: pages * 4096 }
    }
    pub fn cap(&self) -> usize { self.len }
    /// Copy `bytes` so that they end exactly where the accessible part ends.
    pub fn place_at_end(&mut self, bytes: &[u8]) -> &[u8] {
        assert!(bytes.len() <= self.len);
        let off = self.len - bytes.len();
        unsafe {
            core::ptr::copy_nonoverlapping(bytes.as_ptr(), self.base.add(off), bytes.len());
            core::slice::from_raw_parts(self.base.add(off), bytes.len())
        }
    }
}

impl Drop for GuardArena {
    fn drop(&mut self) { unsafe { libc::munmap(self.base as *mut libc::c_void, self.len + 4096); } }
}

// ------------------------------------------------------------------ arena

/// A 4096-aligned byte arena in which a stream can be placed at a chosen residue, with
/// an exact logical end (bytes after the stream are poisoned with 0xEE).
pub struct Arena { ptr: *mut u8, cap: usize }

impl Arena {
    pub fn new(cap: usize) -> Self {
        let cap = cap.max(4096).div_ceil(4096) * 4096;
        let ptr = unsafe { std::alloc::alloc(Layout::from_size_align(cap, 4096).unwrap()) };
        assert!(!ptr.is_null());
        Arena { ptr, cap }
    }
    pub fn base(&self) -> usize { self.ptr as usize }
    /// Copy `bytes` at offset `r`, poison the rest, return the placed slice.
    pub fn place(&mut self, r: usize, bytes: &[u8]) -> &[u8] {
        assert!(r + bytes.len() <= self.cap, "arena too small");
        unsafe {
            std::ptr::write_bytes(self.ptr, 0xEE, self.cap);
            std::ptr::copy_nonoverlapping(bytes.as_ptr(), self.ptr.add(r), bytes.len());
            std::slice::from_raw_parts(self.ptr.add(r), bytes.len())
        }
    }
    /// Place `bytes` so that they END at the end of the arena's last page-aligned boundary
    /// minus nothing: i.e. flush against the end of the allocation (for over-read detection
    /// under valgrind) while keeping the start 64-aligned when possible.
    pub fn cap(&self) -> usize { self.cap }
}
impl Drop for Arena {
    fn drop(&mut self) { unsafe { std::alloc::dealloc(self.ptr, Layout::from_size_align(self.cap, 4096).unwrap()) } }
}

// ------------------------------------------------------------------ scripted writer

/// Answers of the scripted `std::io::Write` at a choice point.
#[derive(Clone, Copy, Debug, PartialEq, Eq)]
pub enum WAns { All, One, AllButOne, Interrupted, Zero, Fail, Panic }
pub const W_ALTS: [WAns; 6] = [WAns::One, WAns::AllButOne, WAns::Interrupted, WAns::Zero, WAns::Fail, WAns::Panic];
/// message of the panic raised by alternative 5 (a writer that unwinds instead of returning)
pub const WRITER_PANIC: &str = "scripted writer panic";

/// A script maps choice-point index -> non-default answer.
#[derive(Clone, Debug, Default)]
pub struct Script { pub dev: Vec<(usize, u8)> }

impl Script {
    pub fn get(&self, point: usize) -> Option<u8> { self.dev.iter().find(|(p, _)| *p == point).map(|(_, a)| *a) }
}

/// Scripted `std::io::Write`: every `write` and `flush` call is a choice point.
pub struct ScriptWriter {
    /// every flush answers Interrupted (it never completes)
    pub flush_always_interrupted: bool,
    pub accepted: Vec<u8>,
    pub script: Script,
    pub point: usize,
    /// (point, is_flush, requested len) per choice point seen
    pub log: Vec<(usize, bool, usize)>,
    pub hard_fail: bool,
}

impl ScriptWriter {
    pub fn new(script: Script) -> Self { ScriptWriter { flush_always_interrupted: false, accepted: vec![], script, point: 0, log: vec![], hard_fail: false } }
}

impl std::io::Write for ScriptWriter {
    fn write(&mut self, buf: &[u8]) -> std::io::Result<usize> {
        let p = self.point;
        self.point += 1;
        self.log.push((p, false, buf.len()));
        let ans = match self.script.get(p) { None => WAns::All, Some(i) => W_ALTS[i as usize] };
        match ans {
            WAns::All => { self.accepted.extend_from_slice(buf); Ok(buf.len()) }
            WAns::One => { let n = buf.len().min(1); self.accepted.extend_from_slice(&buf[..n]); Ok(n) }
            WAns::AllButOne => {
                let n = if buf.len() > 1 { buf.len() - 1 } else { buf.len() };
                self.accepted.extend_from_slice(&buf[..n]);
                Ok(n)
            }
            WAns::Interrupted => Err(std::io::Error::new(std::io::ErrorKind::Interrupted, "scripted EINTR")),
            WAns::Zero => { if !buf.is_empty() { self.hard_fail = true; } Ok(0) }
            WAns::Fail => { self.hard_fail = true; Err(std::io::Error::new(std::io::ErrorKind::Other, "scripted failure")) }
            WAns::Panic => { self.hard_fail = true; panic!("{}", WRITER_PANIC) }
        }
    }
    fn flush(&mut self) -> std::io::Result<()> {
        let p = self.point;
        self.point += 1;
        self.log.push((p, true, 0));
        if self.flush_always_interrupted {
            self.hard_fail = true;
            // give up after many attempts so that a subject retrying forever does not hang the checker
            if self.log.iter().filter(|x| x.1).count() > 10_000 { return Err(std::io::Error::new(std::io::ErrorKind::Other, "gave up")); }
            return Err(std::io::Error::new(std::io::ErrorKind::Interrupted, "scripted EINTR on flush"));
        }
        match self.script.get(p) {
            None => Ok(()),
            Some(_) => { self.hard_fail = true; Err(std::io::Error::new(std::io::ErrorKind::Other, "scripted flush failure")) }
        }
    }
}

// ------------------------------------------------------------------ scripted reader

#[derive(Clone, Copy, Debug, PartialEq, Eq)]
pub enum RAns { Fill, One, AllButOne, Interrupted, Eof, Fail }
pub const R_ALTS: [RAns; 5] = [RAns::One, RAns::AllButOne, RAns::Interrupted, RAns::Eof, RAns::Fail];

/// Scripted `std::io::Read` over a byte vector; every `read` call is a choice point.
/// `chunk` (if non-zero) bounds every default answer to that many bytes.
pub struct ScriptReader<'a> {
    pub data: &'a [u8],
    pub pos: usize,
    pub script: Script,
    pub point: usize,
    pub chunk: usize,
    pub alt_eintr: bool,
    pub hard_fail: bool,
    pub npoints_nonempty: usize,
    /// from this choice point on every `read` answers `WouldBlock` (a non-blocking source that
    /// never becomes ready, a socket whose timeout expires): a hard failure, not something to
    /// retry for ever. `spun` counts the calls made after the first such answer.
    pub would_block_from: Option<usize>,
    pub spun: usize,
}

impl<'a> ScriptReader<'a> {
    pub fn new(data: &'a [u8], script: Script) -> Self {
        ScriptReader { data, pos: 0, script, point: 0, chunk: 0, alt_eintr: false, hard_fail: false, npoints_nonempty: 0, would_block_from: None, spun: 0 }
    }
}

impl std::io::Read for ScriptReader<'_> {
    fn read(&mut self, buf: &mut [u8]) -> std::io::Result<usize> {
        let p = self.point;
        self.point += 1;
        let avail = self.data.len() - self.pos;
        let want = buf.len().min(avail);
        if !buf.is_empty() { self.npoints_nonempty += 1; }
        if let Some(w) = self.would_block_from {
            if p >= w {
                self.hard_fail = true;
                self.spun += 1;
                // give up after many retries so that a subject spinning on it does not hang the checker
                if self.spun > 20_000 { return Err(std::io::Error::new(std::io::ErrorKind::Other, "gave up")); }
                return Err(std::io::Error::new(std::io::ErrorKind::WouldBlock, "scripted EWOULDBLOCK"));
            }
        }
        let ans = match self.script.get(p) { None => RAns::Fill, Some(i) => R_ALTS[i as usize] };
        if self.alt_eintr && p % 2 == 1 {
            return Err(std::io::Error::new(std::io::ErrorKind::Interrupted, "scripted EINTR"));
        }
        let n = match ans {
            RAns::Fill => if self.chunk > 0 { want.min(self.chunk) } else { want },
            RAns::One => want.min(1),
            RAns::AllButOne => if want > 1 { want - 1 } else { want },
            RAns::Interrupted => return Err(std::io::Error::new(std::io::ErrorKind::Interrupted, "scripted EINTR")),
            RAns::Eof => { if !buf.is_empty() { self.hard_fail = true; } 0 }
            RAns::Fail => { self.hard_fail = true; return Err(std::io::Error::new(std::io::ErrorKind::Other, "scripted failure")); }
        };
        buf[..n].copy_from_slice(&self.data[self.pos..self.pos + n]);
        self.pos += n;
        Ok(n)
    }
}
