//! Per-type checks, part 2: header corruption (C10), truncation (C11), placement (C12),
//! writer faults (C13), reader fragmentation/faults (C14), tags (C15), schema (C18).

use crate::checks::*;
use crate::cx::*;
use crate::env::*;
use crate::model::*;
use serde_json::json;

/// Indices for fault sweeps: the first `k-1` values plus the last one.
fn few(n: usize, k: usize) -> Vec<usize> {
    if n <= k { (0..n).collect() } else { let mut v: Vec<usize> = (0..k - 1).collect(); v.push(n - 1); v }
}

/// Both deserializers on `bytes` placed 4096-aligned: (full outcome, eps outcome).
fn both(t: &dyn TypeOps, bytes: &[u8], arena: &mut Arena) -> (Out<Val>, Out<Val>) {
    let f = t.full(bytes).map(|x| x.0);
    let placed = arena.place(0, bytes);
    let e = t.eps(placed).map(|x| x.0);
    (f, e)
}

// ------------------------------------------------------------------ C10

pub fn c10(t: &dyn TypeOps, cx: &mut Cx) {
    let n = build(t, cx);
    let mut arena = Arena::new(1 << 16);
    for (vi, i) in few(n, cx.tier.pick(1, 3)).into_iter().enumerate() {
        let want = t.val(i);
        let bytes = match t.ser(i) { Out::Ok((b, _)) => b, _ => { cx.outcome("skipped-unserializable"); continue; } };
        if bytes.len() + 64 > arena.cap() { arena = Arena::new(bytes.len() * 2); }
        match both(t, &bytes, &mut arena) { (Out::Ok(_), Out::Ok(_)) => {} _ => { cx.outcome("skipped-baseline-not-ok"); continue; } }
        cx.case(case_hash(cx, &want), true);
        let th = u64::from_ne_bytes(bytes[13..21].try_into().unwrap());
        let ah = u64::from_ne_bytes(bytes[21..29].try_into().unwrap());
        // the errors name both types: the name stored in the stream and the name of the reading type
        let name = t.type_name();
        let mut judge = |cx: &mut Cx, what: &str, pert: &[u8], exp: &str, arena: &mut Arena| {
            cx.evals += 2;
            cx.transitions += 2;
            let (f, e) = both(t, pert, arena);
            for (mode, o) in [("full", &f), ("eps", &e)] {
                cx.outcome(&o.class());
                let ok = match o { Out::Ok(v) => exp == "OK" && *v == want, Out::Err(e) => e == exp, Out::Panic(_) => false };
                if !ok {
                    let got = match o { Out::Ok(_) => "value".to_string(), Out::Err(e) => e.split('(').next().unwrap().to_string(), Out::Panic(p) => format!("panic:{}", panic_class(p)) };
                    cx.violate(&format!("{}-{}-gives-{}", what.split(':').next().unwrap(), mode, got),
                        json!({"value": vdesc(i, &want), "perturbation": what, "expected": exp, "observed": o.describe()}));
                }
            }
        };
        for byte in 0..FIXED_HEADER_LEN {
            for bit in 0..8 {
                let mut p = bytes.clone();
                p[byte] ^= 1 << bit;
                let (what, exp): (String, String) = if byte < 8 {
                    let m = u64::from_ne_bytes(p[0..8].try_into().unwrap());
                    (format!("magic:flip{}.{}", byte, bit), format!("MagicCookieError({:#x})", m))
                } else if byte < 10 {
                    (format!("major:flip{}.{}", byte, bit), format!("MajorVersionMismatch({})", u16::from_ne_bytes(p[8..10].try_into().unwrap())))
                } else if byte < 12 {
                    let m = u16::from_ne_bytes(p[10..12].try_into().unwrap());
                    (format!("minor:flip{}.{}", byte, bit), if m > VERSION_MINOR { format!("MinorVersionMismatch({})", m) } else { "OK".into() })
                } else if byte < 13 {
                    (format!("usize:flip{}.{}", byte, bit), format!("UsizeSizeMismatch({})", p[12]))
                } else if byte < 21 {
                    let h = u64::from_ne_bytes(p[13..21].try_into().unwrap());
                    (format!("typehash:flip{}.{}", byte, bit), format!("WrongTypeHash(ser={:#x},self={:#x},ser_name={},self_name={})", h, th, name, name))
                } else {
                    let h = u64::from_ne_bytes(p[21..29].try_into().unwrap());
                    (format!("alignhash:flip{}.{}", byte, bit), format!("WrongAlignHash(ser={:#x},self={:#x},ser_name={},self_name={})", h, ah, name, name))
                };
                judge(cx, &what, &p, &exp, &mut arena);
            }
        }
        // both hash words corrupted at once: the same bit in each (the differences must not
        // cancel), and a bit in one with the next bit in the other; the type hash is reported
        for b in 0..64usize {
            for db in [0usize, 1] {
                let mut p = bytes.clone();
                p[13 + b / 8] ^= 1 << (b % 8);
                let b2 = (b + db) % 64;
                p[21 + b2 / 8] ^= 1 << (b2 % 8);
                let h = u64::from_ne_bytes(p[13..21].try_into().unwrap());
                let exp = format!("WrongTypeHash(ser={:#x},self={:#x},ser_name={},self_name={})", h, th, name, name);
                judge(cx, &format!("bothhashes:flip{}+{}", b, b2), &p, &exp, &mut arena);
            }
        }
        let mut p = bytes.clone();
        p[0..8].reverse();
        judge(cx, "magic:reversed", &p, "EndiannessError", &mut arena);
        let minors: Vec<u16> = if cx.tier == Tier::Thorough && vi == 0 && t.ty().depth() == 0 { (0..=u16::MAX).collect() } else { vec![0, 1, 2, 3, 255, 256, 257, 32768, 65535] };
        for m in minors {
            let mut p = bytes.clone();
            p[10..12].copy_from_slice(&m.to_ne_bytes());
            let exp = if m > VERSION_MINOR { format!("MinorVersionMismatch({})", m) } else { "OK".to_string() };
            judge(cx, &format!("minor:set{}", m), &p, &exp, &mut arena);
        }
        for m in [0u16, 2, 256, 65535] {
            let mut p = bytes.clone();
            p[8..10].copy_from_slice(&m.to_ne_bytes());
            judge(cx, &format!("major:set{}", m), &p, &format!("MajorVersionMismatch({})", m), &mut arena);
        }
        // combinations: a lower (accepted) minor version together with every other corruption must
        // still give that corruption's error; and the ε-copy header check does not depend on where
        // the buffer lies (the header is parsed by value)
        if vi == 0 {
            let bits: Vec<u8> = if cx.tier == Tier::Thorough { (0..8).collect() } else { vec![0, 6] };
            for byte in (0..10).chain(12..FIXED_HEADER_LEN) {
                for &bit in &bits {
                    let mut p = bytes.clone();
                    p[10..12].copy_from_slice(&0u16.to_ne_bytes());
                    p[byte] ^= 1 << bit;
                    let exp = if byte < 8 { format!("MagicCookieError({:#x})", u64::from_ne_bytes(p[0..8].try_into().unwrap())) }
                        else if byte < 10 { format!("MajorVersionMismatch({})", u16::from_ne_bytes(p[8..10].try_into().unwrap())) }
                        else if byte < 13 { format!("UsizeSizeMismatch({})", p[12]) }
                        else if byte < 21 { format!("WrongTypeHash(ser={:#x},self={:#x},ser_name={},self_name={})", u64::from_ne_bytes(p[13..21].try_into().unwrap()), th, name, name) }
                        else { format!("WrongAlignHash(ser={:#x},self={:#x},ser_name={},self_name={})", u64::from_ne_bytes(p[21..29].try_into().unwrap()), ah, name, name) };
                    judge(cx, &format!("minor0+flip{}.{}", byte, bit), &p, &exp, &mut arena);
                }
            }
            for byte in 0..FIXED_HEADER_LEN {
                if byte == 10 || byte == 11 { continue; }
                let mut p = bytes.clone();
                p[byte] ^= 0x10;
                let exp = if byte < 8 { format!("MagicCookieError({:#x})", u64::from_ne_bytes(p[0..8].try_into().unwrap())) }
                    else if byte < 10 { format!("MajorVersionMismatch({})", u16::from_ne_bytes(p[8..10].try_into().unwrap())) }
                    else if byte < 13 { format!("UsizeSizeMismatch({})", p[12]) }
                    else if byte < 21 { format!("WrongTypeHash(ser={:#x},self={:#x},ser_name={},self_name={})", u64::from_ne_bytes(p[13..21].try_into().unwrap()), th, name, name) }
                    else { format!("WrongAlignHash(ser={:#x},self={:#x},ser_name={},self_name={})", u64::from_ne_bytes(p[21..29].try_into().unwrap()), ah, name, name) };
                for r in [1usize, 4] {
                    cx.evals += 1;
                    let placed = arena.place(r, &p);
                    let o = t.eps(placed).map(|x| x.0);
                    cx.outcome(&o.class());
                    if !matches!(&o, Out::Err(e) if *e == exp) {
                        let got = match &o { Out::Ok(_) => "value".to_string(), Out::Err(e) => e.split('(').next().unwrap().to_string(), Out::Panic(p) => format!("panic:{}", panic_class(p)) };
                        cx.violate(&format!("misplaced-buffer-header-corruption-eps-gives-{}", got), json!({"value": vdesc(i, &want), "flipped_byte": byte, "residue": r, "expected": exp, "observed": o.describe()}));
                    }
                }
            }
        }
        if vi == 0 { cx.sample(json!({"type": cx.type_id, "value": format!("{:?}", want), "perturbations": "232 bit flips + reversed cookie + minor/major classes, both modes"})); }
    }
}

// ------------------------------------------------------------------ C11

pub fn c11(t: &dyn TypeOps, cx: &mut Cx) {
    let n = build(t, cx);
    for (vi, i) in few(n, cx.tier.pick(2, 8)).into_iter().enumerate() {
        let want = t.val(i);
        let bytes = match t.ser(i) { Out::Ok((b, _)) => b, _ => { cx.outcome("skipped-unserializable"); continue; } };
        let mut arena = Arena::new(bytes.len() + 4096);
        match both(t, &bytes, &mut arena) { (Out::Ok(_), Out::Ok(_)) => {} _ => { cx.outcome("skipped-baseline-not-ok"); continue; } }
        cx.case(case_hash(cx, &want), true);
        let mut guard = GuardArena::new(bytes.len() + 64);
        for k in 0..bytes.len() {
            cx.evals += 3;
            cx.transitions += 3;
            let f = t.full(&bytes[..k]);
            cx.outcome(&format!("full-{}", f.class()));
            match &f {
                Out::Err(e) if e == "ReadError" => {}
                o => cx.violate(&format!("full-prefix-{}", o.class()), json!({"value": vdesc(i, &want), "cut": k, "len": bytes.len(), "observed": o.describe()})),
            }
            // ε-copy on an exact-length heap copy of the prefix (64-aligned start; the slice
            // ends where the prefix ends)
            let e = {
                let lay = std::alloc::Layout::from_size_align(k.max(1), 64).unwrap();
                let p = unsafe { std::alloc::alloc(lay) };
                unsafe { std::ptr::copy_nonoverlapping(bytes.as_ptr(), p, k); }
                let sl = unsafe { std::slice::from_raw_parts(p, k) };
                let r = t.eps(sl).map(|x| x.0);
                unsafe { std::alloc::dealloc(p, lay); }
                r
            };
            // the same prefix ending exactly at an inaccessible page: reading a single byte
            // beyond the prefix (before a bounds check catches up) kills the worker
            {
                let g = guard.place_at_end(&bytes[..k]);
                let r = t.eps(g).map(|x| x.0);
                cx.outcome(&format!("eps-at-guard-page-{}", r.class()));
                match &r {
                    Out::Err(_) => {}
                    Out::Panic(p) if panic_class(p) == "bounds" => {}
                    o => cx.violate(&format!("eps-prefix-at-guard-page-{}", o.class()), json!({"value": vdesc(i, &want), "cut": k, "len": bytes.len(), "observed": o.describe()})),
                }
            }
            cx.outcome(&format!("eps-{}", e.class()));
            match &e {
                Out::Err(_) => {}
                Out::Panic(p) if panic_class(p) == "bounds" => {}
                o => cx.violate(&format!("eps-prefix-{}", o.class()), json!({"value": vdesc(i, &want), "cut": k, "len": bytes.len(), "observed": o.describe()})),
            }
        }
        // file-backed entry points that do not zero-extend: load_full and mmap
        if vi < 2 {
            let path = format!("{}/c11-{:016x}.bin", crate::checks3::scratch(), hash64(&[cx.type_id.as_bytes()]));
            // what a crash while STORING leaves behind: every strict prefix of the file that
            // `store` itself writes (which is the serialized stream, C08)
            // (over an existing, longer file of the same type: a torn write must not be completed
            // by what the old file left behind)
            { let mut old = bytes.clone(); old.extend_from_slice(&bytes[bytes.len().saturating_sub(48)..]); let _ = std::fs::write(&path, &old); }
            let stored = match t.store(i, &path) { Out::Ok(()) => std::fs::read(&path).unwrap_or_default(), _ => bytes.clone() };
            let stored = if stored.is_empty() { bytes.clone() } else { stored };
            for k in 0..stored.len() {
                std::fs::write(&path, &stored[..k]).unwrap();
                for (loader, name) in [(0u8, "load_full"), (3u8, "mmap")] {
                    cx.evals += 1;
                    cx.transitions += 1;
                    let r = t.load_history(loader, &path, 0, &[]);
                    cx.outcome(&format!("{}-{}", name, r.class()));
                    let ok = match &r {
                        Out::Err(e) if loader == 0 => e == "ReadError",
                        Out::Err(_) => true,
                        Out::Panic(p) => loader == 3 && panic_class(p) == "bounds",
                        Out::Ok(_) => false,
                    };
                    if !ok { cx.violate(&format!("{}-truncated-file-{}", name, r.class()), json!({"value": vdesc(i, &want), "cut": k, "len": bytes.len(), "observed": r.describe()})); }
                }
            }
            let _ = std::fs::remove_file(&path);
        }
        if vi == 0 { cx.sample(json!({"type": cx.type_id, "value": format!("{:?}", want), "cuts": bytes.len()})); }
    }
}

// ------------------------------------------------------------------ C12

pub fn c12(t: &dyn TypeOps, cx: &mut Cx) {
    let ty = t.ty();
    let n = build(t, cx);
    for (vi, i) in few(n, cx.tier.pick(3, 10)).into_iter().enumerate() {
        let want = t.val(i);
        let bytes = match t.ser(i) { Out::Ok((b, _)) => b, _ => { cx.outcome("skipped-unserializable"); continue; } };
        let enc = encode(&ty, &want, t.type_name());
        if !masked_eq(&bytes, &enc.bytes, &enc.mask) {
            // the stream is not the reference stream (C06's business); the placement arithmetic
            // of the model does not apply, but the outcome classes still do: the value or an
            // alignment error, and the value at a fully aligned base
            cx.outcome("model-free-sweep");
            let mut arena = Arena::new(bytes.len() + 4096);
            for r in 0..128usize {
                cx.evals += 1;
                let placed = arena.place(r, &bytes);
                match t.eps(placed) {
                    Out::Ok((got, spans)) => {
                        if got != want { cx.violate("placed-wrong-value", json!({"value": vdesc(i, &want), "residue": r, "observed": format!("{:?}", got)})); }
                        for s in &spans { if s.elem_align > 0 && s.addr % s.elem_align != 0 { cx.violate("misaligned-reference", json!({"value": vdesc(i, &want), "residue": r, "span": format!("{:?}", s)})); } }
                    }
                    Out::Err(e) if e == "AlignmentError" && r % 64 != 0 => {}
                    o => cx.violate(&format!("placement-{}", o.class()), json!({"value": vdesc(i, &want), "residue": r, "observed": o.describe()})),
                }
            }
            continue;
        }
        let mut arena = Arena::new(bytes.len() + 4096);
        // blocks the reader encounters: (offset, unit); zero-sized leaves count as unit 1
        let blocks: Vec<(usize, usize)> = enc.events.iter().filter_map(|e| if let Ev::Block { off, unit, .. } = e { Some((*off, (*unit).max(1))) } else { None }).collect();
        cx.case(case_hash(cx, &want), blocks.iter().any(|b| b.1 > 1));
        for r in 0..128usize {
            cx.evals += 1;
            cx.transitions += 1;
            let base = arena.base();
            let placed = arena.place(r, &bytes);
            let expect_ok = blocks.iter().all(|(off, unit)| (base + r + off) % unit == 0);
            let o = t.eps(placed);
            cx.outcome(&format!("{}-{}", if expect_ok { "aligned" } else { "misaligned" }, o.class()));
            match (&o, expect_ok) {
                (Out::Ok((got, spans)), true) => {
                    if *got != want { cx.violate("placed-wrong-value", json!({"value": vdesc(i, &want), "residue": r, "observed": format!("{:?}", got)})); }
                    for s in spans { if s.elem_align > 0 && s.addr % s.elem_align != 0 { cx.violate("misaligned-reference", json!({"value": vdesc(i, &want), "residue": r, "span": format!("{:?}", s)})); } }
                }
                (Out::Err(e), false) if e == "AlignmentError" => {}
                (o, true) => cx.violate(&format!("aligned-placement-{}", o.class()), json!({"value": vdesc(i, &want), "residue": r, "blocks": format!("{:?}", blocks), "observed": o.describe()})),
                (Out::Ok((got, spans)), false) => {
                    let mis = spans.iter().any(|s| s.elem_align > 0 && s.addr % s.elem_align != 0);
                    cx.violate(if mis { "misplaced-accepted-misaligned-reference" } else if *got != want { "misplaced-accepted-wrong-value" } else { "misplaced-accepted" },
                        json!({"value": vdesc(i, &want), "residue": r, "blocks": format!("{:?}", blocks), "observed": format!("{:?}", got)}));
                }
                (o, false) => cx.violate(&format!("misplaced-{}", o.class()), json!({"value": vdesc(i, &want), "residue": r, "blocks": format!("{:?}", blocks), "observed": o.describe()})),
            }
        }
        if vi == 0 { cx.sample(json!({"type": cx.type_id, "value": format!("{:?}", want), "blocks(off,unit)": format!("{:?}", blocks), "residues": 128})); }
    }
}

// ------------------------------------------------------------------ C13

/// Deviation-bounded exploration of the scripted writer.
pub fn c13(t: &dyn TypeOps, cx: &mut Cx, dmax: usize) {
    let n = build(t, cx);
    for (vi, i) in few(n, cx.tier.pick(2, 4)).into_iter().enumerate() {
        let want = t.val(i);
        let reference = match t.ser(i) { Out::Ok((b, _)) => b, _ => { cx.outcome("skipped-unserializable"); continue; } };
        cx.case(case_hash(cx, &want), true);
        let prot = t.owned(i);
        // entry 0: `serialize`; entry 1: `serialize_with_schema` (the same stream through the
        // schema-recording writer), single deviations
        let mut execs_total = 0u64;
        for entry in 0..2u8 {
        let ser = |w: &mut ScriptWriter| if entry == 0 { t.ser_script(i, w) } else { t.ser_script_schema(i, w) };
        let dmax = if entry == 0 { dmax } else { 1 };
        let tag = if entry == 0 { "writer" } else { "schema-writer" };
        let mut stack: Vec<Script> = vec![Script::default()];
        let mut execs = 0u64;
        while let Some(script) = stack.pop() {
            execs += 1;
            cx.evals += 1;
            let mut w = ScriptWriter::new(script.clone());
            protect(&prot);
            let r = ser(&mut w);
            let freed = unprotect();
            cx.transitions += w.log.len() as u64;
            let hard = w.hard_fail;
            let mut bad: Vec<String> = vec![];
            match &r {
                Out::Panic(p) => bad.push(format!("panic:{}", panic_class(p))),
                Out::Ok(cnt) => {
                    if hard { bad.push("success-despite-failure".into()); }
                    else {
                        if *cnt != reference.len() { bad.push("wrong-count".into()); }
                        if w.accepted != reference { bad.push("bytes-differ-from-fault-free".into()); }
                    }
                }
                Out::Err(e) if e == "WriteError" => { if !hard { bad.push("error-without-failure".into()); } }
                Out::Err(_) => bad.push("wrong-error-kind".into()),
            }
            if !reference.starts_with(&w.accepted) { bad.push("accepted-not-a-prefix".into()); }
            if freed > 0 { bad.push("source-memory-freed".into()); }
            if t.val(i) != want { bad.push("source-value-changed".into()); }
            cx.outcome(&r.class());
            for b in bad {
                cx.violate(&format!("{}-{}", tag, b), json!({"value": vdesc(i, &want), "script": format!("{:?}", script.dev), "accepted": w.accepted.len(), "reference_len": reference.len(), "observed": r.describe()}));
            }
            if script.dev.len() < dmax && !hard {
                let start = script.dev.last().map(|(p, _)| p + 1).unwrap_or(0);
                for (p, is_flush, len) in w.log.iter().filter(|(p, _, _)| *p >= start) {
                    let alts: &[u8] = if *is_flush { &[0] } else if *len == 0 { &[2, 4] } else { &[0, 1, 2, 3, 4] };
                    for a in alts {
                        let mut s = script.clone();
                        s.dev.push((*p, *a));
                        stack.push(s);
                    }
                }
            }
            if execs > 300_000 { cx.count("capped_values", 1); break; }
        }
        cx.count(&format!("scripts_D{}{}", dmax, if entry == 0 { "" } else { "_schema" }), execs);
        execs_total += execs;
        // a flush that is interrupted forever never completes: an error, not success
        {
            cx.evals += 1;
            let mut w = ScriptWriter::new(Script::default());
            w.flush_always_interrupted = true;
            let r = ser(&mut w);
            cx.outcome(&format!("flush-always-interrupted-{}", r.class()));
            if !matches!(&r, Out::Err(e) if e == "WriteError") {
                cx.violate(&format!("{}-flush-never-completes-{}", tag, if matches!(r, Out::Ok(_)) { "reports-success".to_string() } else { r.class() }), json!({"value": vdesc(i, &want), "flush_attempts": w.log.iter().filter(|x| x.1).count(), "observed": r.describe()}));
            }
        }
        }
        // all scripts with two deviations at ADJACENT choice points (a short write followed by an
        // interruption or a failure inside the same request), whatever the deviation bound
        if dmax < 2 {
            let mut probe = ScriptWriter::new(Script::default());
            let _ = t.ser_script(i, &mut probe);
            let npoints = probe.log.len();
            let mut pairs = 0u64;
            for p in 0..npoints.saturating_sub(0) {
                for a in [0u8, 1, 2] {
                    for b in [0u8, 1, 2, 3, 4] {
                        pairs += 1;
                        cx.evals += 1;
                        let mut w = ScriptWriter::new(Script { dev: vec![(p, a), (p + 1, b)] });
                        protect(&prot);
                        let r = t.ser_script(i, &mut w);
                        let freed = unprotect();
                        cx.transitions += w.log.len() as u64;
                        let hard = w.hard_fail;
                        let mut bad: Vec<&str> = vec![];
                        match &r {
                            Out::Panic(_) => bad.push("panic"),
                            Out::Ok(cnt) => { if hard { bad.push("success-despite-failure"); } else if *cnt != reference.len() || w.accepted != reference { bad.push("bytes-differ-from-fault-free"); } }
                            Out::Err(e) if e == "WriteError" => { if !hard { bad.push("error-without-failure"); } }
                            Out::Err(_) => bad.push("wrong-error-kind"),
                        }
                        if !reference.starts_with(&w.accepted) { bad.push("accepted-not-a-prefix"); }
                        if freed > 0 { bad.push("source-memory-freed"); }
                        for b_ in bad { cx.violate(&format!("writer-{}", b_), json!({"value": vdesc(i, &want), "script": format!("[({}, {}), ({}, {})]", p, a, p + 1, b), "observed": r.describe()})); }
                    }
                }
            }
            cx.count("scripts_adjacent_pairs", pairs);
        }
        // real sinks: a buffered file on a full device (the error surfaces when the buffer is
        // flushed) and a path that cannot be created
        if vi == 0 {
            cx.evals += 2;
            cx.transitions += 2;
            let r = t.store(i, "/dev/full");
            cx.outcome(&format!("dev-full-{}", r.class()));
            match &r {
                Out::Err(e) if e == "WriteError" => {}
                o => cx.violate(&format!("store-to-full-device-{}", if matches!(o, Out::Ok(_)) { "reports-success".to_string() } else { o.class() }), json!({"value": vdesc(i, &want), "observed": o.describe()})),
            }
            // a file that cannot grow past 16 KiB (RLIMIT_FSIZE, SIGXFSZ ignored): the first
            // writes succeed, a later direct write of a large block fails part-way
            if let Some(li) = first_scalable(t, n) {
                // (the exact length of the stream: it must exceed the limit with a wide margin)
                if matches!(t.ser_scaled(li, 3_000), Out::Ok((b, _)) if b.len() > (40 << 10)) {
                    cx.evals += 1;
                    cx.transitions += 1;
                    let path = format!("{}/c13-limited-{:016x}.bin", crate::checks3::scratch(), hash64(&[cx.type_id.as_bytes()]));
                    let mut old = libc::rlimit { rlim_cur: 0, rlim_max: 0 };
                    let r = unsafe {
                        libc::signal(libc::SIGXFSZ, libc::SIG_IGN);
                        libc::getrlimit(libc::RLIMIT_FSIZE, &mut old);
                        let lim = libc::rlimit { rlim_cur: 16 << 10, rlim_max: old.rlim_max };
                        libc::setrlimit(libc::RLIMIT_FSIZE, &lim);
                        let r = t.store_scaled(li, 3_000, &path);
                        libc::setrlimit(libc::RLIMIT_FSIZE, &old);
                        r
                    };
                    let flen = std::fs::metadata(&path).map(|m| m.len()).unwrap_or(0);
                    let _ = std::fs::remove_file(&path);
                    cx.outcome(&format!("size-limited-file-{}", r.class()));
                    match &r {
                        Out::Err(e) if e == "WriteError" => {}
                        o => cx.violate(&format!("store-to-size-limited-file-{}", if matches!(o, Out::Ok(_)) { "reports-success".to_string() } else { o.class() }), json!({"value_index": li, "file_len_reached": flen, "limit": 16 << 10, "observed": o.describe()})),
                    }
                }
            }
            let r = t.store(i, crate::checks3::scratch());
            cx.outcome(&format!("dir-path-{}", r.class()));
            match &r {
                Out::Err(e) if e.starts_with("FileOpenError") => {}
                o => cx.violate(&format!("store-to-directory-{}", if matches!(o, Out::Ok(_)) { "reports-success".to_string() } else { o.class() }), json!({"value": vdesc(i, &want), "observed": o.describe()})),
            }
        }
        if vi == 0 { cx.sample(json!({"type": cx.type_id, "value": format!("{:?}", want), "scripts_explored": execs_total, "entry_points": ["serialize", "serialize_with_schema"], "deviation_bound": dmax})); }
    }
}

// ------------------------------------------------------------------ C14

pub fn c14(t: &dyn TypeOps, cx: &mut Cx, dmax: usize) {
    let n = build(t, cx);
    for (vi, i) in few(n, cx.tier.pick(2, 4)).into_iter().enumerate() {
        let want = t.val(i);
        let bytes = match t.ser(i) { Out::Ok((b, _)) => b, _ => { cx.outcome("skipped-unserializable"); continue; } };
        match t.full(&bytes) { Out::Ok((x, _)) if x == want => {} _ => { cx.outcome("skipped-baseline-not-ok"); continue; } }
        cx.case(case_hash(cx, &want), true);
        for (chunk, eintr) in [(1usize, false), (2, false), (3, false), (5, false), (7, false), (13, false), (1, true), (0, true)] {
            cx.evals += 1;
            let mut rd = ScriptReader::new(&bytes, Script::default());
            rd.chunk = chunk;
            rd.alt_eintr = eintr;
            let o = t.full_script(&mut rd);
            cx.transitions += rd.point as u64;
            cx.outcome(&format!("chunked-{}", o.class()));
            match &o {
                Out::Ok(x) if *x == want => {}
                o => cx.violate(&format!("fragmented-{}", if matches!(o, Out::Ok(_)) { "wrong-value".to_string() } else { o.class() }), json!({"value": vdesc(i, &want), "chunk": chunk, "alternate_eintr": eintr, "observed": o.describe()})),
            }
        }
        let mut stack: Vec<Script> = vec![Script::default()];
        let mut execs = 0u64;
        while let Some(script) = stack.pop() {
            execs += 1;
            cx.evals += 1;
            let mut rd = ScriptReader::new(&bytes, script.clone());
            let o = t.full_script(&mut rd);
            cx.transitions += rd.point as u64;
            let hard = rd.hard_fail;
            cx.outcome(&format!("script-{}", o.class()));
            match (&o, hard) {
                (Out::Ok(x), false) if *x == want => {}
                (Out::Err(e), true) if e == "ReadError" => {}
                (o, _) => cx.violate(&format!("reader-{}-{}", if hard { "failure" } else { "fragmentation" }, if matches!(o, Out::Ok(_)) { "value".to_string() } else { o.class() }),
                    json!({"value": vdesc(i, &want), "script": format!("{:?}", script.dev), "observed": o.describe()})),
            }
            if script.dev.len() < dmax && !hard {
                let start = script.dev.last().map(|(p, _)| p + 1).unwrap_or(0);
                for p in start..rd.point {
                    for a in 0..5u8 {
                        let mut s = script.clone();
                        s.dev.push((p, a));
                        stack.push(s);
                    }
                }
            }
            if execs > 300_000 { cx.count("capped_values", 1); break; }
        }
        cx.count(&format!("scripts_D{}", dmax), execs);
        if dmax < 2 {
            // two deviations at adjacent choice points (e.g. a short read then an interruption
            // inside the same request)
            let mut probe = ScriptReader::new(&bytes, Script::default());
            let _ = t.full_script(&mut probe);
            let npoints = probe.point;
            let mut pairs = 0u64;
            for p in 0..npoints {
                for a in [0u8, 1, 2] {
                    for b in 0..5u8 {
                        pairs += 1;
                        cx.evals += 1;
                        let mut rd = ScriptReader::new(&bytes, Script { dev: vec![(p, a), (p + 1, b)] });
                        let o = t.full_script(&mut rd);
                        cx.transitions += rd.point as u64;
                        let hard = rd.hard_fail;
                        match (&o, hard) {
                            (Out::Ok(x), false) if *x == want => {}
                            (Out::Err(e), true) if e == "ReadError" => {}
                            (o, _) => cx.violate(&format!("reader-{}-{}", if hard { "failure" } else { "fragmentation" }, if matches!(o, Out::Ok(_)) { "value".to_string() } else { o.class() }),
                                json!({"value": vdesc(i, &want), "script": format!("[({}, {}), ({}, {})]", p, a, p + 1, b), "observed": o.describe()})),
                        }
                    }
                }
            }
            cx.count("scripts_adjacent_pairs", pairs);
        }
        if vi == 0 { cx.sample(json!({"type": cx.type_id, "value": format!("{:?}", want), "scripts_explored": execs, "deviation_bound": dmax})); }
    }
    // a large value (payload past 64 KiB) through fragmenting readers and a real BufReader
    if let Some(i) = first_scalable(t, n) {
        if let Out::Ok((lb, sval)) = t.ser_scaled(i, 30_000) {
            // (one byte at a time: a request of 100 KB and more arrives in as many pieces)
            for (chunk, eintr) in [(4096usize, false), (8191, false), (65_537, false), (1000, true), (1, false)] {
                cx.evals += 1;
                let mut rd = ScriptReader::new(&lb, Script::default());
                rd.chunk = chunk;
                rd.alt_eintr = eintr;
                let o = t.full_script(&mut rd);
                cx.transitions += rd.point as u64;
                match &o {
                    Out::Ok(x) if *x == sval => cx.outcome("large-chunked-ok"),
                    o => cx.violate(&format!("large-value-fragmented-{}", if matches!(o, Out::Ok(_)) { "wrong-value".to_string() } else { o.class() }), json!({"value_index": i, "chunk": chunk, "alternate_eintr": eintr, "len": lb.len(), "observed": o.describe()})),
                }
            }
        }
    }
    // a source that answers WouldBlock for ever from some point on: a read error, promptly
    for (vi, i) in few(n, 2).into_iter().enumerate() {
        let Out::Ok((b, _)) = t.ser(i) else { continue };
        let mut probe = ScriptReader::new(&b, Script::default());
        let _ = t.full_script(&mut probe);
        let np = probe.point;
        for p in (0..np).step_by((np / 8).max(1)).chain([np.saturating_sub(1)]) {
            cx.evals += 1;
            cx.transitions += 1;
            let mut rd = ScriptReader::new(&b, Script::default());
            rd.would_block_from = Some(p);
            let o = t.full_script(&mut rd);
            cx.outcome(&format!("would-block-{}", o.class()));
            if rd.spun > 1 { cx.violate("reader-retries-a-persistent-WouldBlock", json!({"value_index": i, "point": p, "calls_after_the_first_answer": rd.spun, "observed": o.describe()})); }
            else if !matches!(&o, Out::Err(e) if e == "ReadError") { cx.violate(&format!("would-block-{}", if matches!(o, Out::Ok(_)) { "value".to_string() } else { o.class() }), json!({"value_index": i, "point": p, "observed": o.describe()})); }
        }
        let _ = vi;
    }
    // a reader that fails LATE in a long sequence (more than 64 / 256 items, zero-copy or deep):
    // an error, nothing built so far dropped twice (a double drop of owning items aborts the
    // worker, which is reported against this type), nothing leaked
    for k in [crate::dom::REPEAT | 70, crate::dom::REPEAT | 300] {
        let Some(i) = first_growing(t, n, k) else { continue };
        let Out::Ok((lb, sval)) = t.ser_scaled(i, k) else { continue };
        let mut probe = ScriptReader::new(&lb, Script::default());
        if !matches!(t.full_script(&mut probe), Out::Ok(x) if x == sval) { cx.violate("long-sequence-fault-free-read-differs", json!({"value_index": i, "items_repeated": k & !crate::dom::REPEAT})); continue; }
        let np = probe.point;
        let mut pts: Vec<usize> = vec![np.saturating_sub(1), np.saturating_sub(2), np.saturating_sub(3), np * 3 / 4, np / 2, np / 4];
        pts.extend((0..np).step_by((np / cx.tier.pick(12, 60)).max(1)));
        pts.sort(); pts.dedup();
        for p in pts {
            for alt in [3u8, 4] {
                cx.evals += 1;
                cx.transitions += 1;
                let script = Script { dev: vec![(p, alt)] };
                let before = live_heap();
                let mut rd = ScriptReader::new(&lb, script.clone());
                let o = t.full_script(&mut rd);
                let hard = rd.hard_fail;
                drop(rd);
                // what the deserializer itself left behind: the outcome (a value or an error
                // string built by the harness) is released first
                let (klass, detail, okv) = (o.class(), o.describe(), matches!(&o, Out::Ok(x) if *x == sval));
                let is_ok = matches!(o, Out::Ok(_));
                let is_read_error = matches!(&o, Out::Err(e) if e == "ReadError");
                drop(o);
                let after = live_heap();
                let leaked = after.0 - before.0 - (klass.capacity() + detail.capacity()) as i64;
                cx.outcome(&format!("late-failure-{}", klass));
                if !((is_read_error && hard) || (okv && !hard)) {
                    cx.violate(&format!("late-reader-failure-{}", if is_ok { "value".to_string() } else { klass.clone() }), json!({"value_index": i, "items_repeated": k & !crate::dom::REPEAT, "point": p, "of": np, "answer": format!("{:?}", R_ALTS[alt as usize]), "observed": detail}));
                }
                if leaked != 0 { cx.violate("late-reader-failure-leaks-heap", json!({"value_index": i, "items_repeated": k & !crate::dom::REPEAT, "point": p, "of": np, "leaked_bytes": leaked})); }
            }
        }
    }
}

// ------------------------------------------------------------------ C15

pub fn c15(t: &dyn TypeOps, cx: &mut Cx) {
    let ty = t.ty();
    let n = build(t, cx);
    let mut arena = Arena::new(1 << 16);
    let mut budget = cx.tier.pick(12usize, 60);
    for i in 0..n {
        let want = t.val(i);
        let enc = encode(&ty, &want, t.type_name());
        let tags: Vec<&Ev> = enc.events.iter().filter(|e| matches!(e, Ev::Tag8 { .. } | Ev::TagUsize { .. })).collect();
        if tags.is_empty() { continue; }
        let bytes = match t.ser(i) { Out::Ok((b, _)) => b, _ => { cx.outcome("skipped-unserializable"); continue; } };
        if bytes.len() + 64 > arena.cap() { arena = Arena::new(bytes.len() * 2); }
        cx.case(case_hash(cx, &want), true);
        cx.evals += 1;
        // (a) every variant is mapped back to itself, whatever tag the writer chose
        match both(t, &bytes, &mut arena) {
            (Out::Ok(f), Out::Ok(e)) if f == want && e == want => cx.outcome("variant-roundtrip-ok"),
            (f, e) => cx.violate("variant-not-mapped-back", json!({"value": vdesc(i, &want), "full": f.describe(), "eps": e.describe()})),
        }
        // (a') the same through the stream that `serialize_with_schema` writes
        if let Out::Ok(so) = t.ser_schema(i) {
            cx.evals += 1;
            if so.bytes.len() + 64 > arena.cap() { arena = Arena::new(so.bytes.len() * 2); }
            match both(t, &so.bytes, &mut arena) {
                (Out::Ok(f), Out::Ok(e)) if f == want && e == want => cx.outcome("variant-roundtrip-through-schema-writer-ok"),
                (f, e) => cx.violate("variant-not-mapped-back-through-schema-writer", json!({"value": vdesc(i, &want), "full": f.describe(), "eps": e.describe()})),
            }
        }
        // (b) foreign tags: needs the tag offsets of the model trace, hence a conforming stream
        if !masked_eq(&bytes, &enc.bytes, &enc.mask) { cx.outcome("foreign-tags-skipped-bytes-differ-from-model"); continue; }
        if budget == 0 { continue; }
        budget -= 1;
        for tg in &tags {
            match tg {
                Ev::Tag8 { off, ntags, .. } => {
                    for x in 0..=255u8 {
                        if (x as usize) < *ntags { continue; }
                        let mut p = bytes.clone();
                        p[*off] = x;
                        judge_tag(t, cx, i, &want, &p, *off, x as usize, false, &mut arena);
                        judge_tag(t, cx, i, &want, &p[..off + 1], *off, x as usize, true, &mut arena);
                    }
                }
                Ev::TagUsize { off, ntags, .. } => {
                    let mut xs: Vec<usize> = vec![*ntags, ntags + 1, ntags + 2, 255, 256, 1 << 16, 1 << 32, 1 << 63, usize::MAX];
                    for b in 0..8 { xs.push(0xFFusize << (8 * b)); }
                    for x in xs {
                        if x < *ntags { continue; }
                        let mut p = bytes.clone();
                        p[*off..*off + 8].copy_from_slice(&x.to_ne_bytes());
                        judge_tag(t, cx, i, &want, &p, *off, x, false, &mut arena);
                        judge_tag(t, cx, i, &want, &p[..off + 8], *off, x, true, &mut arena);
                    }
                }
                _ => {}
            }
        }
        if cx.samples.is_empty() { cx.sample(json!({"type": cx.type_id, "value": format!("{:?}", want), "tags": tags.len()})); }
    }
}

#[allow(clippy::too_many_arguments)]
fn judge_tag(t: &dyn TypeOps, cx: &mut Cx, i: usize, want: &Val, p: &[u8], off: usize, x: usize, last: bool, arena: &mut Arena) {
    cx.evals += 2;
    cx.transitions += 2;
    let (f, e) = both(t, p, arena);
    let exp = format!("InvalidTag({})", x);
    for (mode, o) in [("full", &f), ("eps", &e)] {
        cx.outcome(&o.class());
        let ok = matches!(o, Out::Err(e) if *e == exp);
        if !ok {
            let got = match o { Out::Ok(_) => "mapped-to-a-variant".to_string(), Out::Err(e) if e.starts_with("InvalidTag") => "wrong-tag-value-reported".to_string(), Out::Err(e) => e.split('(').next().unwrap().to_string(), Out::Panic(p) => format!("panic:{}", panic_class(p)) };
            cx.violate(&format!("foreign-tag-{}{}-{}", mode, if last { "-at-end" } else { "" }, got),
                json!({"value": vdesc(i, want), "tag_offset": off, "tag_value": x, "tag_is_last_byte": last, "expected": exp, "observed": o.describe()}));
        }
    }
}

// ------------------------------------------------------------------ C18

/// The forest conditions of C18 on a row list: rows inside the stream, pre-order nesting by
/// field path, children (and the top level, from `start`) tiling their parent without gap or
/// overlap, padding rows covering zero bytes only and shorter than the unit that follows,
/// zero-copy blocks at multiples of their recorded alignment.
pub fn schema_forest(rows_in: &[(String, usize, usize, usize)], buf: &[u8], start: usize) -> Vec<(String, String)> {
    struct Row<'a> { field: &'a str, offset: usize, size: usize, align: usize }
    let rows: Vec<Row> = rows_in.iter().map(|(f, o, s, a)| Row { field: f, offset: *o, size: *s, align: *a }).collect();
    let len = buf.len();
    let mut bad: Vec<(String, String)> = vec![];
    let mut stack: Vec<usize> = vec![];
    let mut children: Vec<Vec<usize>> = vec![vec![]; rows.len()];
    let mut tops: Vec<usize> = vec![];
    for (k, r) in rows.iter().enumerate() {
        if r.offset < start { bad.push(("row-before-start-of-the-value".into(), format!("row {} '{}' at {} (the value starts at {})", k, r.field, r.offset, start))); }
        if r.offset.saturating_add(r.size) > len { bad.push(("row-out-of-stream".into(), format!("row {} '{}' {}+{}", k, r.field, r.offset, r.size))); }
        while let Some(&top) = stack.last() {
            let p = &rows[top];
            let inside = r.offset >= p.offset && r.offset + r.size <= p.offset + p.size;
            let named_child = r.field == "PADDING" || r.field.starts_with(&format!("{}.", p.field));
            if inside && named_child && !(r.size > 0 && r.offset == p.offset + p.size) { break; }
            stack.pop();
        }
        match stack.last() { Some(&p) => children[p].push(k), None => tops.push(k) }
        if r.field != "PADDING" { stack.push(k); }
    }
    let tile = |kids: &[usize], start: usize, end: usize, what: &str, bad: &mut Vec<(String, String)>| {
        let mut pos = start;
        for &k in kids {
            let r = &rows[k];
            if r.offset != pos { bad.push((format!("{}-{}", what, if r.offset > pos { "gap" } else { "overlap" }), format!("row {} '{}' at {} expected {}", k, r.field, r.offset, pos))); }
            pos = r.offset + r.size;
        }
        if pos != end { bad.push((format!("{}-does-not-reach-end", what), format!("ends at {} expected {}", pos, end))); }
    };
    tile(&tops, start, len, "top-level", &mut bad);
    for (p, ch) in children.iter().enumerate() { if !ch.is_empty() { tile(ch, rows[p].offset, rows[p].offset + rows[p].size, "children", &mut bad); } }
    for (k, r) in rows.iter().enumerate() {
        if r.field == "PADDING" {
            if r.offset + r.size <= len && buf[r.offset..r.offset + r.size].iter().any(|b| *b != 0) { bad.push(("padding-row-covers-nonzero".into(), format!("row {}", k))); }
            if let Some(nx) = rows.get(k + 1) { if nx.align > 0 && r.size >= nx.align { bad.push(("padding-row-not-shorter-than-unit".into(), format!("row {}", k))); } }
        } else if r.align > 1 && r.offset % r.align != 0 {
            bad.push(("block-not-at-multiple-of-recorded-align".into(), format!("row {} '{}' offset {} align {}", k, r.field, r.offset, r.align)));
        }
    }
    bad
}

/// Rendering never fails, whatever the field and type names are: hand-built schemas whose
/// names hold multi-byte characters at every byte offset of short and long names (run once,
/// while the unit type is being explored).
fn c18_rendering(cx: &mut Cx) {
    use epserde::ser::{Schema, SchemaRow};
    let data = vec![0x5Au8; 64];
    let mut failures = 0u64;
    for ch in ["ö", "€", "𝄞"] {
        for total in [8usize, 40, 90, 97, 100, 130, 200, 300] {
            for at in 0..total {
                cx.evals += 1;
                cx.transitions += 2;
                let name = format!("{}{}{}", "a".repeat(at), ch, "b".repeat(total - at));
                let rows = vec![
                    SchemaRow { field: "ROOT".into(), ty: name.clone(), offset: 0, size: 16, align: 0 },
                    SchemaRow { field: format!("ROOT.{}", name), ty: format!("Vec<{}>", name), offset: 0, size: 8, align: 0 },
                    SchemaRow { field: "ROOT.zero".into(), ty: name.clone(), offset: 8, size: 8, align: 8 },
                ];
                let sc = Schema(rows);
                let a = guarded(|| sc.to_csv().len());
                let b = guarded(|| sc.debug(&data).len());
                for (what, r) in [("to_csv", a), ("debug", b)] {
                    if let Err(p) = r {
                        failures += 1;
                        if failures <= 6 { cx.violate(&format!("schema-{}-panics-on-a-name", what), json!({"name_bytes": name.len(), "multi_byte_char_at_byte": at, "char": ch, "observed": p})); }
                    }
                }
            }
        }
    }
    cx.outcome(if failures == 0 { "rendering-of-hand-built-schemas-ok" } else { "rendering-of-hand-built-schemas-panics" });
}

pub fn c18(t: &dyn TypeOps, cx: &mut Cx) {
    if cx.type_id == "()" { c18_rendering(cx); }
    let ty = t.ty();
    let n = build(t, cx);
    for i in 0..n {
        let want = t.val(i);
        let plain = match t.ser(i) { Out::Ok((b, _)) => b, _ => { cx.outcome("skipped-unserializable"); continue; } };
        cx.evals += 1;
        cx.case(case_hash(cx, &want), true);
        let so = match t.ser_schema(i) {
            Out::Ok(s) => s,
            o => { cx.violate(&format!("schema-ser-{}", o.class()), json!({"value": vdesc(i, &want), "observed": o.describe()})); continue; }
        };
        let buf = &so.bytes;
        if *buf != plain { cx.violate("schema-bytes-differ-from-plain", json!({"value": vdesc(i, &want)})); continue; }
        cx.transitions += so.rows.len() as u64;
        let len = buf.len();
        let _ = len;
        let enc = encode(&ty, &want, t.type_name());
        let mut bad = schema_forest(&so.rows, buf, 0);
        struct Row<'a> { field: &'a str, offset: usize, size: usize, align: usize }
        let rows: Vec<Row> = so.rows.iter().map(|(f, o, s, a)| Row { field: f, offset: *o, size: *s, align: *a }).collect();
        let mblocks: Vec<(usize, usize, usize)> = enc.events.iter().filter_map(|e| if let Ev::Block { off, len, unit, .. } = e { Some((*off, *len, *unit)) } else { None }).collect();
        let sblocks: Vec<(usize, usize, usize)> = rows.iter().filter(|r| r.field.starts_with("ROOT") && r.field.ends_with(".zero")).map(|r| (r.offset, r.size, r.align)).collect();
        if masked_eq(buf, &enc.bytes, &enc.mask) && mblocks != sblocks { bad.push(("block-rows-differ-from-model-trace".into(), format!("schema {:?} model {:?}", sblocks, mblocks))); }
        if let Err(p) = &so.csv { bad.push((format!("to_csv-panic:{}", panic_class(p)), p.clone())); }
        if let Ok(c) = &so.csv { if *c != rows.len() + 1 { bad.push(("csv-line-count".into(), format!("{} lines for {} rows", c, rows.len()))); } }
        if let Err(p) = &so.debug { bad.push((format!("debug-panic:{}", panic_class(p)), p.clone())); }
        if bad.is_empty() { cx.outcome("schema-ok"); } else { cx.outcome("schema-bad"); }
        for (c, d) in bad { cx.violate(&format!("schema-{}", c), json!({"value": vdesc(i, &want), "observed": d, "rows": rows.len()})); }
        // a schema writer created on a writer that has already advanced (a second structure
        // after a first one, a value after a preamble): same forest, offsets from that position,
        // and the bytes the plain writer produces from the same position
        if i < 2 {
            for r in [1usize, 3, 8, 13, 66] {
                cx.evals += 1;
                match (t.inner_schema(i, r), t.inner_ser(i, r)) {
                    (Out::Ok(s2), Out::Ok(pl)) => {
                        cx.transitions += s2.rows.len() as u64;
                        let mut bad2 = schema_forest(&s2.rows, &s2.bytes, r);
                        if s2.bytes.len() < r || s2.bytes[..r].iter().any(|b| *b != 0xA5) { bad2.push(("preamble-overwritten".into(), String::new())); }
                        if s2.bytes.len() != pl.bytes.len() || s2.bytes[r.min(s2.bytes.len())..] != pl.bytes[r.min(pl.bytes.len())..] { bad2.push(("bytes-differ-from-plain-writer-at-the-same-position".into(), format!("{} vs {} bytes", s2.bytes.len(), pl.bytes.len()))); }
                        if let Err(p) = &s2.debug { bad2.push((format!("debug-panic:{}", panic_class(p)), p.clone())); }
                        cx.outcome(if bad2.is_empty() { "schema-at-offset-ok" } else { "schema-at-offset-bad" });
                        for (c, d) in bad2 { cx.violate(&format!("schema-at-offset-{}", c), json!({"value": vdesc(i, &want), "writer_position": r, "observed": d})); }
                    }
                    (o, _) => cx.violate(&format!("schema-at-offset-{}", o.class()), json!({"value": vdesc(i, &want), "writer_position": r, "observed": o.describe()})),
                }
            }
        }
        if i == 0 { cx.sample(json!({"type": cx.type_id, "value": format!("{:?}", want), "rows": rows.iter().take(12).map(|r| format!("{}@{}+{}", r.field, r.offset, r.size)).collect::<Vec<_>>() })); }
    }
}
