//! Check context: counters, violations, samples; JSON-lines protocol between workers and
//! the parent process.

use serde_json::{json, Value};
use std::collections::{BTreeMap, HashSet};

#[derive(Clone, Copy, Debug, PartialEq, Eq)]
pub enum Tier { Quick, Thorough }

impl Tier {
    pub fn name(self) -> &'static str { match self { Tier::Quick => "quick", Tier::Thorough => "thorough" } }
    pub fn pick<T>(self, q: T, t: T) -> T { match self { Tier::Quick => q, Tier::Thorough => t } }
}

#[derive(Clone, Debug)]
pub struct Violation { pub key: String, pub count: u64, pub detail: Value }

pub struct Cx {
    pub check: String,
    pub tier: Tier,
    pub type_id: String,
    pub evals: u64,
    pub transitions: u64,
    pub nontrivial: u64,
    pub distinct: HashSet<u64>,
    pub outcomes: BTreeMap<String, u64>,
    pub counters: BTreeMap<String, u64>,
    pub viols: Vec<Violation>,
    pub samples: Vec<Value>,
    pub notes: Vec<String>,
    /// machinery errors (model inconsistencies): make the run exit 2
    pub machinery: Vec<String>,
}

impl Cx {
    pub fn new(check: &str, tier: Tier) -> Self {
        Cx {
            check: check.into(), tier, type_id: String::new(), evals: 0, transitions: 0, nontrivial: 0,
            distinct: HashSet::new(), outcomes: BTreeMap::new(), counters: BTreeMap::new(), viols: vec![],
            samples: vec![], notes: vec![], machinery: vec![],
        }
    }
    pub fn outcome(&mut self, o: &str) { *self.outcomes.entry(o.to_string()).or_insert(0) += 1; }
    pub fn count(&mut self, k: &str, n: u64) { *self.counters.entry(k.to_string()).or_insert(0) += n; }
    /// Register a distinct, non-trivial case (by a hash of its descriptor).
    pub fn case(&mut self, h: u64, nontrivial: bool) {
        if nontrivial && self.distinct.insert(h) { self.nontrivial += 1; }
    }
    pub fn sample(&mut self, v: Value) { if self.samples.len() < 2 { self.samples.push(v); } }
    pub fn violate(&mut self, class: &str, detail: Value) {
        let key = format!("{}|{}|{}", self.check, self.type_id, class);
        if let Some(v) = self.viols.iter_mut().find(|v| v.key == key) { v.count += 1; return; }
        let mut d = detail;
        if let Value::Object(m) = &mut d {
            m.insert("check".into(), json!(self.check));
            m.insert("type_id".into(), json!(self.type_id));
            m.insert("class".into(), json!(class));
        }
        self.viols.push(Violation { key, count: 1, detail: d });
    }
    pub fn machinery_error(&mut self, msg: String) { if self.machinery.len() < 20 { self.machinery.push(format!("{}: {}", self.type_id, msg)); } }

    /// Emit this context's results for the current type as one JSON line and reset.
    pub fn flush_type(&mut self) -> Value {
        let v = json!({
            "t": "type",
            "type_id": self.type_id,
            "evals": self.evals,
            "transitions": self.transitions,
            "nontrivial": self.nontrivial,
            "outcomes": self.outcomes,
            "counters": self.counters,
            "viols": self.viols.iter().map(|v| json!({"key": v.key, "count": v.count, "detail": v.detail})).collect::<Vec<_>>(),
            "samples": self.samples,
            "notes": self.notes,
            "machinery": self.machinery,
        });
        self.evals = 0; self.transitions = 0; self.nontrivial = 0; self.distinct.clear();
        self.outcomes.clear(); self.counters.clear(); self.viols.clear(); self.samples.clear();
        self.notes.clear(); self.machinery.clear();
        v
    }
}

pub fn hash64(parts: &[&[u8]]) -> u64 {
    let mut v = Vec::new();
    for p in parts { v.extend_from_slice(p); v.push(0xFE); }
    xxhash_rust::xxh3::xxh3_64(&v)
}

pub fn hex(b: &[u8]) -> String {
    let mut s = String::with_capacity(b.len() * 2);
    for x in b { s.push_str(&format!("{:02x}", x)); }
    s
}
