//! Reference model of the ε-serde 1.1 format: type terms, values, memory layout of
//! zero-copy data, the byte encoder (as an event trace), the hash recipes and the
//! "serialized structure" signature. Deliberately boring, and independent of `epserde`:
//! the only trusted primitives are XXH3 and `core::hash::Hash for str/usize`.

use core::hash::{Hash, Hasher};
use std::rc::Rc;

#[derive(Clone, Copy, Debug, PartialEq, Eq, Hash, PartialOrd, Ord)]
pub enum Prim {
    U8, U16, U32, U64, U128, Usize,
    I8, I16, I32, I64, I128, Isize,
    F32, F64, Bool, Char,
    NzU8, NzU16, NzU32, NzU64, NzU128, NzUsize,
    NzI8, NzI16, NzI32, NzI64, NzI128, NzIsize,
}

impl Prim {
    pub fn size(self) -> usize {
        use Prim::*;
        match self {
            U8 | I8 | Bool | NzU8 | NzI8 => 1,
            U16 | I16 | NzU16 | NzI16 => 2,
            U32 | I32 | F32 | Char | NzU32 | NzI32 => 4,
            U64 | I64 | F64 | Usize | Isize | NzU64 | NzI64 | NzUsize | NzIsize => 8,
            U128 | I128 | NzU128 | NzI128 => 16,
        }
    }
    /// Native alignment on x86_64 Linux (the only platform this harness claims).
    pub fn align(self) -> usize {
        self.size()
    }
    /// The name hashed into the type hash (the Rust spelling of the type).
    pub fn name(self) -> &'static str {
        use Prim::*;
        match self {
            U8 => "u8", U16 => "u16", U32 => "u32", U64 => "u64", U128 => "u128", Usize => "usize",
            I8 => "i8", I16 => "i16", I32 => "i32", I64 => "i64", I128 => "i128", Isize => "isize",
            F32 => "f32", F64 => "f64", Bool => "bool", Char => "char",
            NzU8 => "NonZeroU8", NzU16 => "NonZeroU16", NzU32 => "NonZeroU32", NzU64 => "NonZeroU64",
            NzU128 => "NonZeroU128", NzUsize => "NonZeroUsize",
            NzI8 => "NonZeroI8", NzI16 => "NonZeroI16", NzI32 => "NonZeroI32", NzI64 => "NonZeroI64",
            NzI128 => "NonZeroI128", NzIsize => "NonZeroIsize",
        }
    }
}

#[derive(Clone, Copy, Debug, PartialEq, Eq, Hash)]
pub enum RangeKind { Range, From, Inclusive, To, ToInclusive }

impl RangeKind {
    pub fn hash_name(self) -> &'static str {
        // stringify!(core::ops::$ty)
        match self {
            RangeKind::Range => "core :: ops :: Range",
            RangeKind::From => "core :: ops :: RangeFrom",
            RangeKind::Inclusive => "core :: ops :: RangeInclusive",
            RangeKind::To => "core :: ops :: RangeTo",
            RangeKind::ToInclusive => "core :: ops :: RangeToInclusive",
        }
    }
    pub fn nfields(self) -> usize {
        match self { RangeKind::Range | RangeKind::Inclusive => 2, _ => 1 }
    }
    pub fn field_names(self) -> &'static [&'static str] {
        match self {
            RangeKind::Range => &["start", "end"],
            RangeKind::From => &["start"],
            RangeKind::Inclusive => &["start", "end"],
            RangeKind::To => &["end"],
            RangeKind::ToInclusive => &["end"],
        }
    }
}

#[derive(Clone, Copy, Debug, PartialEq, Eq, Hash)]
pub enum VStyle { Named, Tuple, Unit }

#[derive(Clone, Debug, PartialEq, Eq, Hash)]
pub struct Field {
    /// identifier, or decimal index for tuple fields
    pub name: String,
    pub ty: Ty,
    /// the declared type of the field *is* a type parameter (=> ε-copied in a deep-copy item)
    pub is_param: bool,
}

#[derive(Clone, Debug, PartialEq, Eq, Hash)]
pub struct Variant {
    pub name: String,
    pub style: VStyle,
    pub fields: Vec<Field>,
    /// explicit discriminant (`V = 4`); it is the tag value of a zero-copy (`repr(C)`) enum,
    /// while deep-copy enums are tagged with the variant index
    pub disc: Option<u32>,
}

#[derive(Clone, Debug, PartialEq, Eq, Hash)]
pub struct Adt {
    pub name: String,
    pub is_enum: bool,
    pub zero: bool,
    /// token strings of the repr attributes in source order, as `TokenStream::to_string`
    /// renders them ("C", "align (16)")
    pub reprs: Vec<String>,
    /// const generic parameters (name, value), in declaration order
    pub consts: Vec<(String, usize)>,
    pub variants: Vec<Variant>,
}

impl Adt {
    pub fn repr_align(&self) -> usize {
        let mut a = 1;
        for r in &self.reprs {
            if let Some(rest) = r.strip_prefix("align") {
                let digits: String = rest.chars().filter(|c| c.is_ascii_digit()).collect();
                if let Ok(n) = digits.parse::<usize>() { a = a.max(n); }
            }
        }
        a
    }
    pub fn is_repr_c(&self) -> bool { self.reprs.iter().any(|r| r == "C") }
}

#[derive(Clone, Debug, PartialEq, Eq, Hash)]
pub enum Ty {
    Prim(Prim),
    Unit,
    /// PhantomData<inner>; inner may be a hash-only type
    Phantom(Box<Ty>),
    RangeFull,
    String,
    BoxStr,
    /// unsized `str` (only inside Phantom)
    Str,
    Vec(Box<Ty>),
    BoxSlice(Box<Ty>),
    Array(Box<Ty>, usize),
    /// homogeneous tuple (the only serializable kind)
    Tuple(Box<Ty>, usize),
    /// heterogeneous tuple (hash-only, inside Phantom)
    TupleHet(Vec<Ty>),
    Option(Box<Ty>),
    Bound(Box<Ty>),
    ControlFlow(Box<Ty>, Box<Ty>),
    Range(RangeKind, Box<Ty>),
    Adt(Rc<Adt>),
}

#[derive(Clone, Debug, PartialEq, Eq, Hash, PartialOrd, Ord)]
pub enum Val {
    Unit,
    /// primitives by bit pattern (bool 0/1, char as u32, floats by bits, NonZero by value)
    Bits(u128),
    Str(String),
    Seq(Vec<Val>),
    /// sum types: index of the variant in declaration order (Option: None 0 Some 1; Bound:
    /// Unbounded 0 Included 1 Excluded 2; ControlFlow: Break 0 Continue 1), payload fields
    Variant(usize, Vec<Val>),
    /// product types: fields in declaration order (ranges: start, end)
    Struct(Vec<Val>),
}

pub fn round_up(v: usize, a: usize) -> usize { if a == 0 { v } else { v.div_ceil(a) * a } }

impl Ty {
    /// CopyType::Copy == Zero
    pub fn is_zero(&self) -> bool {
        match self {
            Ty::Prim(_) | Ty::Unit | Ty::Phantom(_) | Ty::RangeFull => true,
            Ty::Array(t, _) => t.is_zero(),
            Ty::Tuple(..) => true,
            Ty::Range(..) => true,
            Ty::Adt(a) => a.zero,
            _ => false,
        }
    }

    /// `T: Copy` (needed on top of `is_zero` to be an element of a zero-copy sequence)
    pub fn is_rust_copy(&self) -> bool {
        match self {
            Ty::Prim(_) | Ty::Unit | Ty::Phantom(_) | Ty::RangeFull => true,
            Ty::Array(t, _) | Ty::Tuple(t, _) => t.is_rust_copy(),
            Ty::Range(k, t) => matches!(k, RangeKind::To | RangeKind::ToInclusive) && t.is_rust_copy(),
            Ty::Adt(a) => a.zero,
            _ => false,
        }
    }

    /// The ZeroCopy marker trait: zero copy-kind + Copy.
    pub fn is_zero_copy_trait(&self) -> bool { self.is_zero() && self.is_rust_copy() }

    /// (size_of, align_of) for zero-copy types on x86_64 Linux.
    pub fn layout(&self) -> (usize, usize) {
        match self {
            Ty::Prim(p) => (p.size(), p.align()),
            Ty::Unit | Ty::Phantom(_) | Ty::RangeFull => (0, 1),
            Ty::Array(t, n) | Ty::Tuple(t, n) => { let (s, a) = t.layout(); (s * n, a) }
            Ty::Range(k, t) => {
                let (s, a) = t.layout();
                match k {
                    RangeKind::Range => (2 * s, a),
                    RangeKind::Inclusive => (round_up(2 * s + 1, a), a),
                    _ => (s, a),
                }
            }
            Ty::Adt(adt) => adt_layout(adt).0,
            other => panic!("layout of non zero-copy type {:?}", other),
        }
    }

    /// The alignment unit used for padding (`MaxSizeOf::max_size_of`): what the pinned build
    /// computes wherever that is a valid unit (it defines what is on disk); zero-sized leaves
    /// have unit 1 and ranges round their size up to a power of two (the pinned build returned
    /// 0 resp. the raw size there: findings F4 and F14, repaired).
    pub fn unit(&self) -> usize {
        match self {
            Ty::Prim(p) => p.size(),
            Ty::Unit | Ty::Phantom(_) | Ty::RangeFull => 1,
            Ty::Array(t, _) | Ty::Tuple(t, _) => t.unit(),
            Ty::Range(..) => { let (s, a) = self.layout(); s.next_power_of_two().max(a) }
            Ty::Adt(adt) => {
                let mut m = self.layout().1;
                for v in &adt.variants { for f in &v.fields { m = m.max(f.ty.unit()); } }
                m
            }
            other => panic!("unit of non zero-copy type {:?}", other),
        }
    }

    /// The unit that the *documented* rule gives ("maximum size of a primitive field maximised
    /// with align_of"), clamped to >= 1 so that it can be used as a modulus.
    pub fn unit_doc(&self) -> usize {
        match self {
            Ty::Prim(p) => p.size(),
            Ty::Unit | Ty::Phantom(_) | Ty::RangeFull => 1,
            Ty::Array(t, _) | Ty::Tuple(t, _) | Ty::Range(_, t) => t.unit_doc(),
            Ty::Adt(adt) => {
                let mut m = self.layout().1;
                for v in &adt.variants { for f in &v.fields { m = m.max(f.ty.unit_doc()); } }
                m
            }
            other => panic!("unit of non zero-copy type {:?}", other),
        }
    }

    /// Contains a range whose size is not a nonzero power of two: the pinned build padded such
    /// ranges to a non-power-of-two unit (finding F14), so its streams for these types are not
    /// format-1.1 streams and were readable only at lucky addresses.
    pub fn has_f14_range(&self) -> bool {
        match self {
            Ty::Range(_, t) => { let s = self.layout().0; s == 0 || !s.is_power_of_two() || t.has_f14_range() }
            Ty::Vec(t) | Ty::BoxSlice(t) | Ty::Array(t, _) | Ty::Tuple(t, _) | Ty::Option(t) | Ty::Bound(t) | Ty::Phantom(t) => t.has_f14_range(),
            Ty::ControlFlow(a, b) => a.has_f14_range() || b.has_f14_range(),
            Ty::Adt(a) => a.variants.iter().any(|v| v.fields.iter().any(|f| f.ty.has_f14_range())),
            _ => false,
        }
    }

    /// Rust spelling, for reports.
    pub fn show(&self) -> String {
        match self {
            Ty::Prim(p) => p.name().to_string(),
            Ty::Unit => "()".into(),
            Ty::Phantom(t) => format!("PhantomData<{}>", t.show()),
            Ty::RangeFull => "RangeFull".into(),
            Ty::String => "String".into(),
            Ty::BoxStr => "Box<str>".into(),
            Ty::Str => "str".into(),
            Ty::Vec(t) => format!("Vec<{}>", t.show()),
            Ty::BoxSlice(t) => format!("Box<[{}]>", t.show()),
            Ty::Array(t, n) => format!("[{}; {}]", t.show(), n),
            Ty::Tuple(t, n) => format!("({})", vec![t.show(); *n].join(", ") + if *n == 1 { "," } else { "" }),
            Ty::TupleHet(ts) => format!("({})", ts.iter().map(|t| t.show()).collect::<Vec<_>>().join(", ")),
            Ty::Option(t) => format!("Option<{}>", t.show()),
            Ty::Bound(t) => format!("Bound<{}>", t.show()),
            Ty::ControlFlow(b, c) => format!("ControlFlow<{}, {}>", b.show(), c.show()),
            Ty::Range(k, t) => format!("{:?}<{}>", k, t.show()),
            Ty::Adt(a) => {
                let mut s = a.name.clone();
                s.push('{');
                for v in &a.variants {
                    if a.is_enum { s.push_str(&v.name); s.push('('); }
                    for f in &v.fields { s.push_str(&format!("{}:{},", f.name, f.ty.show())); }
                    if a.is_enum { s.push_str(")|"); }
                }
                s.push('}');
                s
            }
        }
    }

    /// Visit every sum-type occurrence / zero-copy block etc. generically: depth of the term.
    pub fn depth(&self) -> usize {
        match self {
            Ty::Vec(t) | Ty::BoxSlice(t) | Ty::Array(t, _) | Ty::Tuple(t, _) | Ty::Option(t)
            | Ty::Bound(t) | Ty::Range(_, t) | Ty::Phantom(t) => 1 + t.depth(),
            Ty::ControlFlow(a, b) => 1 + a.depth().max(b.depth()),
            Ty::TupleHet(ts) => 1 + ts.iter().map(|t| t.depth()).max().unwrap_or(0),
            Ty::Adt(a) => 1 + a.variants.iter().flat_map(|v| v.fields.iter()).map(|f| f.ty.depth()).max().unwrap_or(0),
            _ => 0,
        }
    }
}

#[derive(Clone, Debug)]
pub struct VariantLayout { pub offsets: Vec<usize> }

#[derive(Clone, Debug)]
pub struct AdtLayout { pub tag_size: usize, pub variants: Vec<VariantLayout> }

/// Layout of a `#[repr(C)]` (optionally `repr(align(N))`) zero-copy struct or enum.
pub fn adt_layout(adt: &Adt) -> ((usize, usize), AdtLayout) {
    let ra = adt.repr_align();
    // each variant as a repr(C) struct
    let mut vls = Vec::new();
    let mut vsizes = Vec::new();
    let mut valigns = Vec::new();
    for v in &adt.variants {
        let mut off = 0usize;
        let mut al = 1usize;
        let mut offs = Vec::new();
        for f in &v.fields {
            let (s, a) = f.ty.layout();
            off = round_up(off, a);
            offs.push(off);
            off += s;
            al = al.max(a);
        }
        vls.push(VariantLayout { offsets: offs });
        vsizes.push(round_up(off, al));
        valigns.push(al);
    }
    if !adt.is_enum {
        let al = valigns[0].max(ra);
        let size = round_up(vsizes[0], al);
        return ((size, al), AdtLayout { tag_size: 0, variants: vls });
    }
    let tag = 4usize; // repr(C) enum discriminant = C int
    let all_unit = adt.variants.iter().all(|v| v.fields.is_empty());
    if all_unit {
        let al = tag.max(ra);
        return ((round_up(tag, al), al), AdtLayout { tag_size: tag, variants: vls });
    }
    let ual = valigns.iter().copied().max().unwrap_or(1);
    let usize_ = round_up(vsizes.iter().copied().max().unwrap_or(0), ual);
    let poff = round_up(tag, ual);
    let al = tag.max(ual).max(ra);
    let size = round_up(poff + usize_, al);
    for vl in vls.iter_mut() { for o in vl.offsets.iter_mut() { *o += poff; } }
    ((size, al), AdtLayout { tag_size: tag, variants: vls })
}

/// In-memory image of a zero-copy value: bytes and a padding mask (true = padding byte,
/// whose content is unspecified).
pub fn image(ty: &Ty, val: &Val) -> (Vec<u8>, Vec<bool>) {
    let (size, _) = ty.layout();
    let mut bytes = vec![0u8; size];
    let mut mask = vec![true; size];
    fill_image(ty, val, &mut bytes, &mut mask, 0);
    (bytes, mask)
}

fn fill_image(ty: &Ty, val: &Val, bytes: &mut [u8], mask: &mut [bool], off: usize) {
    match (ty, val) {
        (Ty::Prim(p), Val::Bits(b)) => {
            let s = p.size();
            bytes[off..off + s].copy_from_slice(&b.to_le_bytes()[..s]);
            for m in &mut mask[off..off + s] { *m = false; }
        }
        (Ty::Unit | Ty::Phantom(_) | Ty::RangeFull, _) => {}
        (Ty::Array(t, n) | Ty::Tuple(t, n), Val::Seq(items)) => {
            assert_eq!(items.len(), *n);
            let (s, _) = t.layout();
            for (i, it) in items.iter().enumerate() { fill_image(t, it, bytes, mask, off + i * s); }
        }
        (Ty::Range(k, t), Val::Struct(fs)) => {
            assert_eq!(fs.len(), k.nfields());
            let (s, _) = t.layout();
            for (i, f) in fs.iter().enumerate() { fill_image(t, f, bytes, mask, off + i * s); }
            if *k == RangeKind::Inclusive {
                // exhausted flag (false) after the two fields; only ever compared under mask
                mask[off + 2 * s] = false;
            }
        }
        (Ty::Adt(adt), v) => {
            let (_, lay) = adt_layout(adt);
            let (vi, fields): (usize, &Vec<Val>) = match v {
                Val::Struct(fs) => (0, fs),
                Val::Variant(i, fs) => (*i, fs),
                other => panic!("bad adt value {:?}", other),
            };
            if adt.is_enum {
                // C rule: an explicit discriminant, otherwise the previous one plus one
                let mut d = 0u32;
                for (k, v) in adt.variants.iter().enumerate().take(vi + 1) {
                    d = match v.disc { Some(x) => x, None if k == 0 => 0, None => d + 1 };
                }
                bytes[off..off + 4].copy_from_slice(&d.to_le_bytes());
                for m in &mut mask[off..off + 4] { *m = false; }
            }
            let var = &adt.variants[vi];
            assert_eq!(var.fields.len(), fields.len());
            for (i, f) in var.fields.iter().enumerate() {
                fill_image(&f.ty, &fields[i], bytes, mask, off + lay.variants[vi].offsets[i]);
            }
        }
        (t, v) => panic!("image: type/value mismatch {:?} / {:?}", t, v),
    }
}

// ---------------------------------------------------------------------------------------
// Hash recipes

/// A `Hasher` that just collects the bytes it is fed; the digest is XXH3-64 of them.
#[derive(Default)]
pub struct Collect(pub Vec<u8>);
impl Hasher for Collect {
    fn finish(&self) -> u64 { xxhash_rust::xxh3::xxh3_64(&self.0) }
    fn write(&mut self, bytes: &[u8]) { self.0.extend_from_slice(bytes); }
}

pub fn type_hash_into(ty: &Ty, h: &mut Collect) {
    match ty {
        Ty::Prim(p) => p.name().hash(h),
        Ty::Unit => "()".hash(h),
        Ty::Phantom(t) => { "PhantomData".hash(h); type_hash_into(t, h); }
        Ty::RangeFull => "core::ops::RangeFull".hash(h),
        Ty::String => "String".hash(h),
        Ty::BoxStr => "Box<str>".hash(h),
        Ty::Str => "str".hash(h),
        Ty::Vec(t) => { "Vec".hash(h); type_hash_into(t, h); }
        Ty::BoxSlice(t) => { "Box<[]>".hash(h); type_hash_into(t, h); }
        Ty::Array(t, n) => { "[]".hash(h); h.write_usize(*n); type_hash_into(t, h); }
        Ty::Tuple(t, n) => { "()".hash(h); for _ in 0..*n { type_hash_into(t, h); } }
        Ty::TupleHet(ts) => { "()".hash(h); for t in ts { type_hash_into(t, h); } }
        Ty::Option(t) => { "Option".hash(h); type_hash_into(t, h); }
        Ty::Bound(t) => { "core::ops::Bound".hash(h); type_hash_into(t, h); }
        Ty::ControlFlow(b, c) => { "core::ops::ControlFlow".hash(h); type_hash_into(b, h); type_hash_into(c, h); }
        Ty::Range(k, t) => { k.hash_name().hash(h); type_hash_into(t, h); }
        Ty::Adt(a) => {
            (if a.zero { "ZeroCopy" } else { "DeepCopy" }).hash(h);
            for (_, v) in &a.consts { v.hash(h); }
            for (n, _) in &a.consts { n.hash(h); }
            a.name.hash(h);
            if !a.is_enum {
                for f in &a.variants[0].fields { f.name.hash(h); }
                for f in &a.variants[0].fields { type_hash_into(&f.ty, h); }
            } else {
                for v in &a.variants {
                    v.name.hash(h);
                    for f in &v.fields { f.name.hash(h); type_hash_into(&f.ty, h); }
                }
            }
        }
    }
}

pub fn type_hash(ty: &Ty) -> u64 { let mut c = Collect::default(); type_hash_into(ty, &mut c); c.finish() }

fn pad_to(v: usize, a: usize) -> usize { (a - v % a) % a }

fn std_align_hash(size: usize, align: usize, h: &mut Collect, off: &mut usize) {
    let padding = pad_to(*off, align);
    padding.hash(h);
    size.hash(h);
    *off += padding;
    *off += size;
}

pub fn align_hash_into(ty: &Ty, h: &mut Collect, off: &mut usize) {
    match ty {
        Ty::Prim(p) => std_align_hash(p.size(), p.align(), h, off),
        Ty::Unit => std_align_hash(0, 1, h, off),
        Ty::Phantom(_) | Ty::RangeFull | Ty::String | Ty::BoxStr | Ty::Str => {}
        Ty::Vec(t) | Ty::BoxSlice(t) | Ty::Option(t) => align_hash_into(t, h, &mut 0),
        Ty::Array(t, n) => {
            if *n == 0 { return; }
            align_hash_into(t, h, off);
            *off += (*n - 1) * t.layout_or_zero().0;
        }
        Ty::Tuple(t, n) => { for _ in 0..*n { align_hash_into(t, h, off); } }
        Ty::TupleHet(_) => {}
        // The pinned build hashes nothing for Bound (see finding F13).
        Ty::Bound(_) => {}
        Ty::ControlFlow(b, c) => { align_hash_into(b, h, &mut 0); align_hash_into(c, h, &mut 0); }
        Ty::Range(_, t) => {
            let (s, a) = t.layout();
            std_align_hash(s, a, h, off);
            std_align_hash(s, a, h, off);
        }
        Ty::Adt(a) => {
            if a.zero {
                ty.layout().0.hash(h);
                for r in &a.reprs { r.hash(h); }
                if !a.is_enum {
                    for f in &a.variants[0].fields { align_hash_into(&f.ty, h, off); }
                } else {
                    let old = *off;
                    for v in &a.variants { *off = old; for f in &v.fields { align_hash_into(&f.ty, h, off); } }
                }
            } else if !a.is_enum {
                for f in &a.variants[0].fields { align_hash_into(&f.ty, h, &mut 0); }
            } else {
                for v in &a.variants { *off = 0; for f in &v.fields { align_hash_into(&f.ty, h, off); } }
            }
        }
    }
}

impl Ty {
    /// size_of for the `(N-1)*size_of::<T>()` step of the array recipe; arrays of deep-copy
    /// types use the real size of the Rust type, which the model does not know — callers that
    /// need exactness for deep elements get it from `Dom::size_of_hint`. The offset only
    /// matters for zero-copy elements (deep elements restart from 0 in every recipe).
    pub fn layout_or_zero(&self) -> (usize, usize) { if self.is_zero() { self.layout() } else { (0, 1) } }
}

pub fn align_hash(ty: &Ty) -> u64 {
    let mut c = Collect::default();
    align_hash_into(ty, &mut c, &mut 0);
    c.finish()
}

// ---------------------------------------------------------------------------------------
// Encoder

pub const MAGIC: [u8; 8] = *b"epserde ";
pub const VERSION_MAJOR: u16 = 1;
pub const VERSION_MINOR: u16 = 1;
pub const FIXED_HEADER_LEN: usize = 29;

#[derive(Clone, Debug, PartialEq, Eq)]
pub enum Ev {
    /// header field (name, offset, len)
    Hdr(&'static str, usize, usize),
    /// pointer-width sequence length
    Len { off: usize, n: usize },
    /// one-byte tag of Option/Bound/ControlFlow; `ntags` tags 0..ntags are valid
    Tag8 { off: usize, tag: u8, ntags: usize },
    /// pointer-width variant index of a derived deep enum
    TagUsize { off: usize, tag: usize, ntags: usize },
    /// a primitive written by value
    Prim { off: usize, len: usize },
    /// zero padding before a block
    Pad { off: usize, len: usize },
    /// a block of zero-copy data written as its memory image
    Block {
        off: usize,
        len: usize,
        /// alignment unit the writer pads to (0 = zero-sized leaf type)
        unit: usize,
        elem_size: usize,
        elem_align: usize,
        /// number of elements (1 for a single structure)
        count: usize,
        /// string / slice / single structure
        kind: BlockKind,
        /// whether ε-copy deserialization returns it as a borrow into the buffer
        borrowed: bool,
    },
}

#[derive(Clone, Copy, Debug, PartialEq, Eq)]
pub enum BlockKind { Slice, Str, One }

#[derive(Clone, Debug, Default)]
pub struct Encoded {
    pub bytes: Vec<u8>,
    /// true = byte is padding *inside* a zero-copy image (unspecified content)
    pub mask: Vec<bool>,
    pub events: Vec<Ev>,
    pub header_len: usize,
}

impl Encoded {
    fn put(&mut self, b: &[u8]) { self.bytes.extend_from_slice(b); self.mask.extend(std::iter::repeat(false).take(b.len())); }
    fn pos(&self) -> usize { self.bytes.len() }
    fn pad(&mut self, unit: usize) {
        let p = if unit <= 1 { 0 } else { pad_to(self.pos(), unit) };
        if p > 0 {
            self.events.push(Ev::Pad { off: self.pos(), len: p });
            self.put(&vec![0u8; p]);
        }
    }
    fn block(&mut self, ty: &Ty, vals: &[&Val], kind: BlockKind, borrowed: bool) {
        let unit = ty.unit();
        self.pad(unit);
        let (es, ea) = ty.layout();
        let off = self.pos();
        for v in vals {
            let (b, m) = image(ty, v);
            self.bytes.extend_from_slice(&b);
            self.mask.extend_from_slice(&m);
        }
        self.events.push(Ev::Block { off, len: es * vals.len(), unit, elem_size: es, elem_align: ea, count: vals.len(), kind, borrowed });
    }
}

/// Encode header + value. `type_name` is what `core::any::type_name` gives for the
/// serialization type (informational field, unchecked by readers).
pub fn encode(ty: &Ty, val: &Val, type_name: &str) -> Encoded {
    let mut e = Encoded::default();
    let th = type_hash(ty);
    let ah = align_hash(ty);
    let mut hdr = |e: &mut Encoded, name: &'static str, b: &[u8]| { e.events.push(Ev::Hdr(name, e.pos(), b.len())); e.put(b); };
    hdr(&mut e, "MAGIC", &MAGIC);
    hdr(&mut e, "VERSION_MAJOR", &VERSION_MAJOR.to_ne_bytes());
    hdr(&mut e, "VERSION_MINOR", &VERSION_MINOR.to_ne_bytes());
    hdr(&mut e, "USIZE_SIZE", &[8u8]);
    hdr(&mut e, "TYPE_HASH", &th.to_ne_bytes());
    hdr(&mut e, "REPR_HASH", &ah.to_ne_bytes());
    hdr(&mut e, "TYPE_NAME_LEN", &type_name.len().to_ne_bytes());
    hdr(&mut e, "TYPE_NAME", type_name.as_bytes());
    e.header_len = e.pos();
    encode_value(ty, val, &mut e, true);
    e
}

/// Encode a value at the current position. `eps` tells whether, in ε-copy mode, this
/// position is ε-deserialized (true) or fully deserialized (false: inside a non-parameter
/// field of a derived deep-copy item).
pub fn encode_value(ty: &Ty, val: &Val, e: &mut Encoded, eps: bool) {
    match (ty, val) {
        (Ty::Prim(p), Val::Bits(b)) => {
            let s = p.size();
            e.events.push(Ev::Prim { off: e.pos(), len: s });
            e.put(&b.to_le_bytes()[..s]);
        }
        (Ty::Unit | Ty::Phantom(_) | Ty::RangeFull, _) => {}
        (Ty::String | Ty::BoxStr, Val::Str(s)) => {
            e.events.push(Ev::Len { off: e.pos(), n: s.len() });
            e.put(&s.len().to_ne_bytes());
            let off = e.pos();
            e.put(s.as_bytes());
            e.events.push(Ev::Block { off, len: s.len(), unit: 1, elem_size: 1, elem_align: 1, count: s.len(), kind: BlockKind::Str, borrowed: eps });
        }
        (Ty::Vec(t) | Ty::BoxSlice(t), Val::Seq(items)) => {
            e.events.push(Ev::Len { off: e.pos(), n: items.len() });
            e.put(&items.len().to_ne_bytes());
            if t.is_zero() {
                let refs: Vec<&Val> = items.iter().collect();
                e.block(t, &refs, BlockKind::Slice, eps);
            } else {
                for it in items { encode_value(t, it, e, eps); }
            }
        }
        (Ty::Array(t, n), Val::Seq(items)) => {
            assert_eq!(items.len(), *n);
            if t.is_zero() {
                e.block(ty, &[val], BlockKind::One, eps);
            } else {
                for it in items { encode_value(t, it, e, eps); }
            }
        }
        (Ty::Tuple(..), Val::Seq(_)) => e.block(ty, &[val], BlockKind::One, eps),
        (Ty::Option(t), Val::Variant(i, fs)) => {
            e.events.push(Ev::Tag8 { off: e.pos(), tag: *i as u8, ntags: 2 });
            e.put(&[*i as u8]);
            if *i == 1 { encode_value(t, &fs[0], e, eps); }
        }
        (Ty::Bound(t), Val::Variant(i, fs)) => {
            e.events.push(Ev::Tag8 { off: e.pos(), tag: *i as u8, ntags: 3 });
            e.put(&[*i as u8]);
            if *i >= 1 { encode_value(t, &fs[0], e, eps); }
        }
        (Ty::ControlFlow(b, c), Val::Variant(i, fs)) => {
            e.events.push(Ev::Tag8 { off: e.pos(), tag: *i as u8, ntags: 2 });
            e.put(&[*i as u8]);
            encode_value(if *i == 0 { b } else { c }, &fs[0], e, eps);
        }
        (Ty::Range(k, t), Val::Struct(fs)) => {
            for f in fs { encode_value(t, f, e, eps); }
            if *k == RangeKind::Inclusive {
                e.events.push(Ev::Prim { off: e.pos(), len: 1 });
                e.put(&[0u8]); // exhausted = false
            }
        }
        (Ty::Adt(adt), v) => {
            if adt.zero {
                e.block(ty, &[v], BlockKind::One, eps);
            } else {
                let (vi, fields): (usize, &Vec<Val>) = match v {
                    Val::Struct(fs) => (0, fs),
                    Val::Variant(i, fs) => (*i, fs),
                    other => panic!("bad adt value {:?}", other),
                };
                if adt.is_enum {
                    e.events.push(Ev::TagUsize { off: e.pos(), tag: vi, ntags: adt.variants.len() });
                    e.put(&vi.to_ne_bytes());
                }
                let var = &adt.variants[vi];
                for (i, f) in var.fields.iter().enumerate() {
                    encode_value(&f.ty, &fields[i], e, eps && f.is_param);
                }
            }
        }
        (t, v) => panic!("encode: type/value mismatch {} / {:?}", t.show(), v),
    }
}

/// Largest alignment unit of any block in a trace (1 if none).
pub fn max_unit(events: &[Ev]) -> usize {
    events.iter().filter_map(|e| if let Ev::Block { unit, .. } = e { Some((*unit).max(1)) } else { None }).max().unwrap_or(1)
}

// ---------------------------------------------------------------------------------------
// Serialized-structure signature (C04)

/// Canonical description of everything that determines how bytes of a type are laid out and
/// interpreted. Two types may be exchanged on disk iff their signatures are equal.
pub fn sig(ty: &Ty) -> String {
    match ty {
        Ty::Prim(p) => p.name().to_string(),
        Ty::Unit => "()".into(),
        Ty::Phantom(t) => format!("Ph<{}>", sig(t)),
        Ty::RangeFull => "RangeFull".into(),
        Ty::String => "String".into(),
        Ty::BoxStr => "BoxStr".into(),
        Ty::Str => "str".into(),
        Ty::Vec(t) => format!("Vec<{}>", sig(t)),
        Ty::BoxSlice(t) => format!("BoxSlice<{}>", sig(t)),
        Ty::Array(t, n) => format!("[{};{}]", sig(t), n),
        Ty::Tuple(t, n) => format!("Tup{}<{}>", n, sig(t)),
        Ty::TupleHet(ts) => format!("TupH<{}>", ts.iter().map(sig).collect::<Vec<_>>().join(",")),
        Ty::Option(t) => format!("Option<{}>", sig(t)),
        Ty::Bound(t) => format!("Bound<{}>", sig(t)),
        Ty::ControlFlow(b, c) => format!("CF<{},{}>", sig(b), sig(c)),
        Ty::Range(k, t) => format!("{:?}<{}>", k, sig(t)),
        Ty::Adt(a) => {
            let mut s = format!("{}:{}:{}", if a.zero { "Z" } else { "D" }, if a.is_enum { "enum" } else { "struct" }, a.name);
            for (n, v) in &a.consts { s.push_str(&format!(":const {}={}", n, v)); }
            if a.zero {
                let (sz, al) = ty.layout();
                s.push_str(&format!(":size{}:align{}:reprs{:?}", sz, al, a.reprs));
            }
            s.push('{');
            for v in &a.variants {
                s.push_str(&format!("{}{:?}(", v.name, v.style));
                for f in &v.fields { s.push_str(&format!("{}:{},", f.name, sig(&f.ty))); }
                s.push(')');
            }
            s.push('}');
            s
        }
    }
}
