//! File loaders (C08) and lifetime/leaks of backing memory (C09 b,c).

use crate::checks::*;
use crate::cx::*;
use crate::env::*;
use crate::model::*;
use serde_json::json;
use std::sync::OnceLock;

static SCRATCH: OnceLock<String> = OnceLock::new();

pub fn scratch() -> &'static str {
    SCRATCH.get_or_init(|| {
        let d = format!("/dev/shm/verif-scratch-{}", std::process::id());
        std::fs::create_dir_all(&d).expect("scratch dir");
        d
    })
}

pub fn cleanup_scratch() {
    if let Some(d) = SCRATCH.get() { let _ = std::fs::remove_dir_all(d); }
}

/// Number of mappings that only the loaders create: file-backed ones under the scratch
/// directory and anonymous read-only private ones.
pub fn loader_mappings() -> usize {
    let maps = std::fs::read_to_string("/proc/self/maps").unwrap_or_default();
    let sc = scratch();
    maps.lines().filter(|l| {
        let mut it = l.split_whitespace();
        let _range = it.next();
        let perms = it.next().unwrap_or("");
        let _off = it.next(); let _dev = it.next(); let inode = it.next().unwrap_or("0");
        let path = it.next().unwrap_or("");
        path.starts_with(sc) || (path.is_empty() && inode == "0" && perms == "r--p")
    }).count()
}

/// Number of open file descriptors of this process.
pub fn open_fds() -> usize { std::fs::read_dir("/proc/self/fd").map(|d| d.count()).unwrap_or(0) }

fn is_mapped(addr: usize) -> bool {
    let maps = std::fs::read_to_string("/proc/self/maps").unwrap_or_default();
    maps.lines().any(|l| {
        let r = l.split_whitespace().next().unwrap_or("");
        if let Some((a, b)) = r.split_once('-') {
            let (a, b) = (usize::from_str_radix(a, 16).unwrap_or(0), usize::from_str_radix(b, 16).unwrap_or(0));
            addr >= a && addr < b
        } else { false }
    })
}

const LOADERS: [&str; 5] = ["load_full", "load_mem", "load_mmap", "mmap", "encase"];

fn few(n: usize, k: usize) -> Vec<usize> {
    if n <= k { (0..n).collect() } else { let mut v: Vec<usize> = (0..k - 1).collect(); v.push(n - 1); v }
}

fn histories(maxlen: usize) -> Vec<Vec<u8>> {
    let mut out: Vec<Vec<u8>> = vec![vec![]];
    let mut frontier: Vec<Vec<u8>> = vec![vec![]];
    for _ in 0..maxlen {
        let mut next = vec![];
        for h in &frontier { for s in 0..6u8 { let mut g = h.clone(); g.push(s); next.push(g); } }
        out.extend(next.iter().cloned());
        frontier = next;
    }
    out
}

pub fn c08(t: &dyn TypeOps, cx: &mut Cx) {
    let n = build(t, cx);
    let path = format!("{}/c08-{:016x}.bin", scratch(), hash64(&[cx.type_id.as_bytes()]));
    let flagsets: Vec<u32> = if cx.tier == Tier::Thorough { (0..8).collect() } else { vec![0, 7] };
    let simple = t.ty().depth() <= 1;
    for (vi, i) in few(n, cx.tier.pick(2, 6)).into_iter().enumerate() {
        let want = t.val(i);
        let bytes = match t.ser(i) { Out::Ok((b, _)) => b, _ => { cx.outcome("skipped-unserializable"); continue; } };
        let mut arena = Arena::new(bytes.len() + 4096);
        let placed = arena.place(0, &bytes);
        let expect = match t.eps(placed) { Out::Ok((v, _)) => v, _ => { cx.outcome("skipped-eps-of-bytes-fails"); continue; } };
        cx.case(case_hash(cx, &want), true);
        cx.evals += 1;
        // store writes exactly the serialized bytes, also over an existing, longer file
        if n > 1 { let _ = t.store(n - 1, &path); let _ = std::fs::OpenOptions::new().append(true).open(&path).and_then(|mut f| std::io::Write::write_all(&mut f, &[0x77; 200])); }
        match t.store(i, &path) {
            Out::Ok(()) => {}
            o => { cx.violate(&format!("store-{}", o.class()), json!({"value": vdesc(i, &want), "observed": o.describe()})); continue; }
        }
        // storing where nothing can be written is not a success (the file would not hold the bytes)
        if vi == 0 {
            cx.evals += 1;
            match t.store(i, "/dev/full") {
                Out::Ok(()) => cx.violate("store-reports-success-although-no-byte-could-be-written", json!({"value": vdesc(i, &want), "sink": "/dev/full", "serialize_len": bytes.len()})),
                _ => cx.outcome("store-to-full-device-refused"),
            }
        }
        let file = std::fs::read(&path).unwrap_or_default();
        if file != bytes { cx.violate("stored-file-differs-from-serialize", json!({"value": vdesc(i, &want), "file_len": file.len(), "serialize_len": bytes.len()})); continue; }
        let flen = file.len();
        cx.count(&format!("file_len_mod64_{:02}", flen % 64), 1);
        // the same file reached through a symbolic link (relative target, longer and shorter
        // than the file): every loader sees the file, not the link
        if vi == 0 {
            for (tag, target) in [("short", std::path::Path::new(&path).file_name().unwrap().to_string_lossy().to_string()), ("long", format!("{}{}", "./".repeat(120), std::path::Path::new(&path).file_name().unwrap().to_string_lossy()))] {
                let link = format!("{}.{}.lnk", path, tag);
                let _ = std::fs::remove_file(&link);
                if std::os::unix::fs::symlink(&target, &link).is_err() { continue; }
                for loader in 0..4u8 {
                    cx.evals += 1;
                    cx.transitions += 1;
                    match t.load_history(loader, &link, 0, &[]) {
                        Out::Ok(o) if o[0].val == expect => cx.outcome("through-symlink-ok"),
                        Out::Ok(_) => cx.violate(&format!("{}-through-symbolic-link-value-differs", LOADERS[loader as usize]), json!({"value": vdesc(i, &want), "link_target_len": target.len(), "file_len": flen})),
                        o => cx.violate(&format!("{}-through-symbolic-link-{}", LOADERS[loader as usize], o.class()), json!({"value": vdesc(i, &want), "link_target_len": target.len(), "file_len": flen, "observed": o.describe()})),
                    }
                }
                let _ = std::fs::remove_file(&link);
            }
        }
        let mut hs: Vec<Vec<u8>> = vec![vec![], vec![0, 1, 2, 3, 4, 5]];
        if simple && vi == 0 { hs = histories(cx.tier.pick(2, 3)); hs.push(vec![0, 1, 2, 3, 4, 5]); }
        for loader in 0..5u8 {
            for (fi, &flags) in flagsets.iter().enumerate() {
                if (loader < 2 || loader == 4) && fi > 0 { continue; } // flags only matter for the mmap-based loaders
                for h in &hs {
                    if loader == 0 && !h.is_empty() { continue; }
                    if fi > 0 && !h.is_empty() { continue; }
                    cx.evals += 1;
                    cx.transitions += 1 + h.len() as u64;
                    let base_maps = loader_mappings();
                    let base_fds = open_fds();
                    let r = t.load_history(loader, &path, flags, h);
                    cx.outcome(&format!("{}-{}", LOADERS[loader as usize], r.class()));
                    let obs = match r {
                        Out::Ok(o) => o,
                        o => { cx.violate(&format!("{}-{}", LOADERS[loader as usize], o.class()), json!({"value": vdesc(i, &want), "flags": flags, "history": format!("{:?}", h), "observed": o.describe()})); continue; }
                    };
                    let mut bad: Vec<String> = vec![];
                    for (k, ob) in obs.iter().enumerate() {
                        if ob.val != expect { bad.push(format!("value-differs-from-eps-of-file-bytes@{}", k)); }
                        if loader == 0 { continue; }
                        let (kind, base, len) = ob.region;
                        if loader == 4 { if kind != 0 || len != 0 { bad.push("encased-structure-reports-a-backend".into()); } continue; }
                        let want_kind = if loader == 1 { 1 } else { 2 };
                        if kind != want_kind { bad.push("backend-kind".into()); continue; }
                        if base % 64 != 0 { bad.push("region-not-aligned-to-64".into()); }
                        if loader >= 2 && base % 4096 != 0 { bad.push("mapping-not-page-aligned".into()); }
                        if len < flen { bad.push("region-shorter-than-file".into()); continue; }
                        if loader == 1 && len != round_up(flen, 64) { bad.push("load_mem-length-not-rounded-to-64".into()); }
                        if loader == 2 && len < round_up(flen, 16) { bad.push("load_mmap-length-below-rounded-16".into()); }
                        if ob.region_bytes.len() >= flen && ob.region_bytes[..flen] != file[..] { bad.push("region-content-differs-from-file".into()); }
                        if loader <= 2 && ob.region_bytes.len() == len && ob.region_bytes[flen..].iter().any(|b| *b != 0) { bad.push("tail-not-zero-filled".into()); }
                        for s in &ob.spans {
                            if s.bytes > 0 && (s.addr < base || s.addr.saturating_add(s.bytes) > base + len) { bad.push("borrowed-part-outside-backing-region".into()); }
                            if s.elem_align > 0 && s.addr % s.elem_align != 0 { bad.push("misaligned-reference".into()); }
                        }
                        if ob.region_hash != obs[0].region_hash && !h[..k].contains(&2) { bad.push(format!("region-content-changed@{}", k)); }
                    }
                    // after the case has been dropped the loader-created mappings are gone
                    if loader_mappings() != base_maps { bad.push("mapping-count-not-restored-after-drop".into()); }
                    if open_fds() != base_fds { bad.push("file-descriptor-not-closed-after-drop".into()); }
                    bad.sort(); bad.dedup();
                    for b in bad { cx.violate(&format!("{}-{}", LOADERS[loader as usize], b.split('@').next().unwrap()), json!({"value": vdesc(i, &want), "flags": flags, "history": format!("{:?}", h), "detail": b, "file_len": flen})); }
                }
            }
        }
        if vi == 0 { cx.sample(json!({"type": cx.type_id, "value": format!("{:?}", want), "file_len": flen, "loaders": LOADERS, "flag_sets": flagsets, "histories": hs.len()})); }
    }
    // ---- file lengths at and around the boundaries a loader may treat specially: exact
    // multiples of the page size and of 64 KiB (and one scaling step below / above them), and a
    // file of more than 2 MiB (the huge-page size) under every flag set
    if let Some(i) = first_scalable(t, n) {
        let len_at = |k: usize| -> Option<usize> { match t.ser_scaled(i, k) { Out::Ok((b, _)) => Some(b.len()), _ => None } };
        if let (Some(l1), Some(l2)) = (len_at(1), len_at(2)) {
            let b = l2.saturating_sub(l1);
            if b > 0 && l1 >= b {
                let a = l1 - b; // file length of scaling k is a + b * k
                let mut ks: Vec<(usize, &str)> = vec![];
                for unit in [4096usize, 65536] {
                    // the smallest multiple of the unit that some scaling hits exactly
                    if let Some(m) = (1..=8usize).find(|m| unit * m > a + b && (unit * m - a) % b == 0) {
                        let k = (unit * m - a) / b;
                        ks.push((k, "exact-multiple"));
                        if b > 1 { ks.push((k - 1, "below-multiple")); ks.push((k + 1, "above-multiple")); }
                    } else {
                        let k = (unit.saturating_sub(a)) / b;
                        if k >= 1 { ks.push((k, "below-multiple")); ks.push((k + 1, "above-multiple")); }
                    }
                }
                let big = cx.tier == Tier::Thorough || hash64(&[cx.type_id.as_bytes()]) % 8 == 0;
                if big { ks.push((((2usize << 20) + 4096 - a) / b + 1, "over-2MiB")); }
                for (k, klass) in ks {
                    let (bytes, _) = match t.ser_scaled(i, k) { Out::Ok(x) => x, _ => continue };
                    let flen = bytes.len();
                    cx.count(&format!("boundary_files_{}", klass), 1);
                    if flen % 65536 == 0 { cx.count("boundary_files_len_multiple_of_64KiB", 1); }
                    if flen % 4096 == 0 { cx.count("boundary_files_len_multiple_of_4KiB", 1); }
                    std::fs::write(&path, &bytes).unwrap();
                    let huge = flen > (1 << 20);
                    let expect = if huge { None } else {
                        let mut arena = Arena::new(flen + 4096);
                        let placed = arena.place(0, &bytes);
                        match t.eps(placed) { Out::Ok((v, _)) => Some(v), _ => { cx.outcome("skipped-eps-of-bytes-fails"); continue; } }
                    };
                    for loader in 0..4u8 {
                        if huge && loader == 0 { continue; }
                        for (fi, flags) in (0..8u32).enumerate() {
                            if loader < 2 && fi > 0 { continue; }
                            if !huge && cx.tier != Tier::Thorough && flags != 0 && flags != 7 { continue; }
                            cx.evals += 1;
                            cx.transitions += 1;
                            let base_maps = loader_mappings();
                            let r = t.load_history(loader, &path, flags, if huge { &[254] } else { &[] });
                            cx.outcome(&format!("{}-{}-{}", klass, LOADERS[loader as usize], r.class()));
                            let obs = match r {
                                Out::Ok(o) => o,
                                o => { cx.violate(&format!("{}-{}-on-{}-file", LOADERS[loader as usize], o.class(), klass), json!({"scaling": k, "file_len": flen, "flags": flags, "observed": o.describe()})); continue; }
                            };
                            let ob = &obs[0];
                            let mut bad: Vec<&str> = vec![];
                            if let Some(e) = &expect { if ob.val != *e { bad.push("value-differs-from-eps-of-file-bytes"); } }
                            if loader > 0 {
                                let (_, base, len) = ob.region;
                                if len < flen { bad.push("region-shorter-than-file"); }
                                else {
                                    if loader == 1 && len != round_up(flen, 64) { bad.push("load_mem-length-not-rounded-to-64"); }
                                    // content of the whole region: the file followed by zeros (mmap: the file)
                                    let mut h = xxhash_rust::xxh3::Xxh3::new();
                                    h.update(&bytes);
                                    if loader <= 2 { h.update(&vec![0u8; len - flen]); }
                                    if loader <= 2 && h.digest() != ob.region_hash { bad.push("region-content-differs-from-file-plus-zeros"); }
                                    if loader == 3 && huge && len == flen && xxhash_rust::xxh3::xxh3_64(&bytes) != ob.region_hash { bad.push("region-content-differs-from-file"); }
                                    if loader == 3 && !huge && ob.region_bytes.len() >= flen && ob.region_bytes[..flen] != bytes[..] { bad.push("region-content-differs-from-file"); }
                                    for s in &ob.spans {
                                        if s.bytes > 0 && (s.addr < base || s.addr.saturating_add(s.bytes) > base + len) { bad.push("borrowed-part-outside-backing-region"); }
                                    }
                                }
                            }
                            drop(obs);
                            if loader_mappings() != base_maps { bad.push("mapping-count-not-restored-after-drop"); }
                            bad.sort(); bad.dedup();
                            for b_ in bad { cx.violate(&format!("{}-{}-on-{}-file", LOADERS[loader as usize], b_, klass), json!({"scaling": k, "file_len": flen, "flags": flags})); }
                        }
                    }
                }
            }
        }
    }
    let _ = std::fs::remove_file(&path);
}

/// C09 (b) release exactly once, unchanged while usable; (c) nothing leaks when loading fails.
pub fn c09(t: &dyn TypeOps, cx: &mut Cx) {
    let ty = t.ty();
    let n = build(t, cx);
    let path = format!("{}/c09-{:016x}.bin", scratch(), hash64(&[cx.type_id.as_bytes()]));
    for (vi, i) in few(n, cx.tier.pick(1, 3)).into_iter().enumerate() {
        let want = t.val(i);
        let bytes = match t.ser(i) { Out::Ok((b, _)) => b, _ => { cx.outcome("skipped-unserializable"); continue; } };
        let enc = encode(&ty, &want, t.type_name());
        cx.case(case_hash(cx, &want), true);
        // ---- (b) successful loads release their region exactly once
        std::fs::write(&path, &bytes).unwrap();
        for loader in 1..4u8 {
            let mut heap = vec![];
            let base_maps = loader_mappings();
            let mut region = (0u8, 0usize, 0usize);
            let mut ok = true;
            for _rep in 0..3 {
                cx.evals += 1;
                cx.transitions += 3;
                match t.load_history(loader, &path, 0, &[1, 3]) {
                    Out::Ok(obs) => { region = obs[0].region; if obs.iter().any(|o| o.region_hash != obs[0].region_hash) { cx.violate(&format!("{}-region-changed-while-in-use", LOADERS[loader as usize]), json!({"value": vdesc(i, &want)})); } }
                    _ => { ok = false; break; }
                }
                heap.push(live_heap());
                if loader_mappings() != base_maps { cx.violate(&format!("{}-mapping-not-released-on-drop", LOADERS[loader as usize]), json!({"value": vdesc(i, &want), "before": base_maps, "after": loader_mappings()})); break; }
            }
            if !ok { cx.outcome("skipped-load-fails"); continue; }
            cx.outcome(&format!("{}-released", LOADERS[loader as usize]));
            if heap.len() == 3 && heap[2] != heap[1] { cx.violate(&format!("{}-heap-not-released-on-drop", LOADERS[loader as usize]), json!({"value": vdesc(i, &want), "live_after_each_load": format!("{:?}", heap)})); }
            if loader >= 2 && region.0 == 2 && is_mapped(region.1) && loader_mappings() != base_maps { cx.violate(&format!("{}-region-still-mapped", LOADERS[loader as usize]), json!({"value": vdesc(i, &want)})); }
        }
        // ---- (c) failing loads leak nothing
        let mut causes: Vec<(String, Option<Vec<u8>>)> = vec![];
        let flip = |at: usize, name: &str| -> (String, Option<Vec<u8>>) { let mut p = bytes.clone(); p[at] ^= 0x40; (name.to_string(), Some(p)) };
        causes.push(flip(3, "bad-magic"));
        causes.push(flip(8, "bad-major"));
        causes.push(flip(11, "bad-minor"));
        causes.push(flip(12, "bad-usize"));
        causes.push(flip(15, "wrong-type-hash"));
        causes.push(flip(25, "wrong-align-hash"));
        { let mut p = bytes.clone(); p[0..8].reverse(); causes.push(("reversed-magic".into(), Some(p))); }
        if let Some(off) = enc.events.iter().find_map(|e| match e { Ev::Tag8 { off, .. } => Some(*off), _ => None }) {
            if bytes.len() == enc.bytes.len() { let mut p = bytes.clone(); p[off] = 0xC7; causes.push(("invalid-tag".into(), Some(p))); }
        }
        let cuts: Vec<usize> = if cx.tier == Tier::Thorough || bytes.len() <= 96 { (0..bytes.len()).collect() } else {
            let mut c: Vec<usize> = (0..40).collect();
            let step = (bytes.len() / 40).max(1);
            c.extend((40..bytes.len()).step_by(step));
            c.push(bytes.len() - 1);
            c.sort(); c.dedup(); c
        };
        for k in cuts { causes.push((format!("truncated@{}", k), Some(bytes[..k].to_vec()))); }
        causes.push(("missing-file".into(), None));
        // paths whose metadata reports a length that cannot be read: a directory, and a kernel
        // attribute file (st_size = 4096, a few bytes of content)
        let mut special: Vec<(String, String)> = vec![("directory".into(), scratch().to_string())];
        for f in ["/sys/kernel/mm/transparent_hugepage/enabled", "/sys/kernel/mm/transparent_hugepage/defrag", "/sys/power/state", "/sys/kernel/profiling"] {
            if vi == 0 && std::fs::metadata(f).map(|m| m.len() > 64).unwrap_or(false) && std::fs::read(f).map(|c| c.len() < 64).unwrap_or(false) { special.push(("pseudo-file-shorter-than-its-size".into(), f.to_string())); break; }
        }
        for (name, _) in &special { causes.push((name.clone(), None)); }
        let mut leaked: std::collections::HashSet<(u8, String)> = Default::default();
        for (cause, content) in &causes {
            let p = if let Some(c) = content { std::fs::write(&path, c).unwrap(); path.clone() } else if let Some((_, sp)) = special.iter().find(|(n, _)| n == cause) { sp.clone() } else { format!("{}/does-not-exist", scratch()) };
            for loader in 1..4u8 {
                // one report per (loader, cause class) is enough; do not keep leaking
                if leaked.contains(&(loader, cause.split('@').next().unwrap().to_string())) { continue; }
                let base_maps = loader_mappings();
                let base_fds = open_fds();
                let mut heap = vec![];
                let mut outcome = String::new();
                for _rep in 0..3 {
                    cx.evals += 1;
                    cx.transitions += 1;
                    let r = t.load_history(loader, &p, 0, &[255]);
                    outcome = r.class();
                    drop(r);
                    heap.push(live_heap());
                }
                let klass = cause.split('@').next().unwrap();
                cx.outcome(&format!("{}-{}", klass, outcome.split(':').next().unwrap()));
                let after_maps = loader_mappings();
                if after_maps != base_maps || heap[2] != heap[1] { leaked.insert((loader, klass.to_string())); }
                if open_fds() != base_fds { cx.violate(&format!("{}-leaks-file-descriptor-on-failure:{}", LOADERS[loader as usize], klass), json!({"value": vdesc(i, &want), "cause": cause, "fds_before": base_fds, "fds_after": open_fds()})); leaked.insert((loader, klass.to_string())); }
                if after_maps != base_maps {
                    cx.violate(&format!("{}-leaks-mapping-on-failure:{}", LOADERS[loader as usize], klass), json!({"value": vdesc(i, &want), "cause": cause, "mappings_before": base_maps, "mappings_after_3_loads": after_maps, "outcome": outcome}));
                }
                if heap[2] != heap[1] {
                    cx.violate(&format!("{}-leaks-heap-on-failure:{}", LOADERS[loader as usize], klass), json!({"value": vdesc(i, &want), "cause": cause, "live_heap_after_each_load": format!("{:?}", heap), "outcome": outcome}));
                }
            }
        }
        if vi == 0 { cx.sample(json!({"type": cx.type_id, "value": format!("{:?}", want), "failure_causes": causes.len(), "loaders": &LOADERS[1..]})); }
    }
    let _ = std::fs::remove_file(&path);
}
