//! Binding of real Rust types to model terms.
//!
//! `Dom` is implemented for *source* types (what is serialized); `EpsView` is implemented for
//! *result* types of ε-copy deserialization. Checks are generic over
//! `T: Dom, for<'a> DeserType<'a, T>: EpsView`.

use crate::model::*;
use core::marker::PhantomData;
use core::num::*;
use core::ops::{Bound, ControlFlow, Range, RangeFrom, RangeFull, RangeInclusive, RangeTo, RangeToInclusive};

/// A borrowed part of an ε-copy result.
#[derive(Clone, Debug, PartialEq, Eq)]
pub struct Span {
    pub addr: usize,
    pub bytes: usize,
    pub count: usize,
    pub elem_size: usize,
    pub elem_align: usize,
    pub kind: BlockKind,
}

/// Enumeration context: width of leaf alphabets and the cap on products.
pub struct ValCx {
    pub w: u8,
    pub cap: usize,
    /// set when some product had to be replaced by a star (covering) product
    pub degraded: bool,
}

impl ValCx {
    /// Sequence lengths for this width.
    pub fn lens(&self) -> &'static [usize] {
        match self.w { 3 => &[0, 1, 2, 3], 2 => &[0, 1, 2], _ => &[0, 2] }
    }
}

/// Cartesian product of the columns if it fits under the cap, otherwise a star product
/// (every value of every column appears at least once, the other columns at their first value).
pub fn product<T: Clone>(cols: &[Vec<T>], cx: &mut ValCx) -> Vec<Vec<T>> {
    if cols.iter().any(|c| c.is_empty()) { return vec![]; }
    let mut total: usize = 1;
    for c in cols { total = total.saturating_mul(c.len()); }
    if total <= cx.cap {
        let mut out: Vec<Vec<T>> = vec![vec![]];
        for c in cols {
            let mut next = Vec::with_capacity(out.len() * c.len());
            for pre in &out { for v in c { let mut p = pre.clone(); p.push(v.clone()); next.push(p); } }
            out = next;
        }
        out
    } else {
        cx.degraded = true;
        let base: Vec<T> = cols.iter().map(|c| c[0].clone()).collect();
        let mut out = vec![base.clone()];
        // last values everywhere (another corner)
        out.push(cols.iter().map(|c| c[c.len() - 1].clone()).collect());
        for (i, c) in cols.iter().enumerate() {
            for v in c.iter().skip(1) {
                let mut p = base.clone();
                p[i] = v.clone();
                out.push(p);
                if out.len() >= cx.cap { return out; }
            }
        }
        out
    }
}

pub trait Dom: Sized + Clone + 'static {
    fn ty() -> Ty;
    fn values(cx: &mut ValCx) -> Vec<Self>;
    fn to_val(&self) -> Val;
    /// Same skeleton, every part that ε-copy returns as a borrow made `k` times longer. With
    /// the [`REPEAT`] bit set in `k`: every OUTERMOST sequence (zero-copy or deep) and string
    /// gets its items repeated `k & !REPEAT` times instead (long sequences of deep items).
    fn scale(&self, _k: usize) -> Self { self.clone() }
    /// Heap ranges owned by this value (address, bytes).
    fn owned(&self, _out: &mut Vec<(usize, usize)>) {}
}

pub trait EpsView {
    fn eps_val(&self) -> Val;
    fn spans(&self, out: &mut Vec<Span>);
    /// Heap ranges owned by the ε-copy result (the skeleton and by-design copies).
    fn eps_owned(&self, _out: &mut Vec<(usize, usize)>) {}
}

/// The complete value domain of `T` under `cap`: the widest alphabet whose full product fits,
/// else the narrowest alphabet with star products.
pub fn domain<T: Dom>(cap: usize) -> (Vec<T>, u8, bool) {
    for w in [3u8, 2, 1] {
        let mut cx = ValCx { w, cap, degraded: false };
        let v = T::values(&mut cx);
        if !cx.degraded && v.len() <= cap { return (v, w, false); }
        if w == 1 {
            let mut v = v;
            v.truncate(cap);
            return (v, 1, true);
        }
    }
    unreachable!()
}

// ------------------------------------------------------------------ primitives

macro_rules! prim_dom {
    ($($t:ty, $p:ident, [$($v3:expr),*], [$($v2:expr),*], [$($v1:expr),*];)*) => {$(
        impl Dom for $t {
            fn ty() -> Ty { Ty::Prim(Prim::$p) }
            fn values(cx: &mut ValCx) -> Vec<Self> {
                match cx.w { 3 => vec![$($v3),*], 2 => vec![$($v2),*], _ => vec![$($v1),*] }
            }
            fn to_val(&self) -> Val {
                let mut b = [0u8; 16];
                let n = self.to_ne_bytes();
                b[..n.len()].copy_from_slice(&n);
                Val::Bits(u128::from_le_bytes(b))
            }
        }
        impl EpsView for $t {
            fn eps_val(&self) -> Val { self.to_val() }
            fn spans(&self, _out: &mut Vec<Span>) {}
        }
    )*};
}

prim_dom! {
    u8, U8, [0, 1, 0xFF], [0, 0xFF], [0x5A];
    u16, U16, [0, 1, 0xFFFE], [1, 0xFFFE], [0xA55A];
    u32, U32, [0, 1, 0xFFFF_FFFE], [1, 0xFFFF_FFFE], [0xDEAD_BEEF];
    u64, U64, [0, 1, 1 << 63, u64::MAX], [1, u64::MAX - 1], [0x0123_4567_89AB_CDEF];
    u128, U128, [0, 1, u128::MAX], [1, u128::MAX - 1], [0x0123_4567_89AB_CDEF_1122_3344_5566_7788];
    usize, Usize, [0, 1, usize::MAX], [1, usize::MAX - 1], [0x1122_3344_5566_7788];
    i8, I8, [0, -1, i8::MIN], [-1, i8::MAX], [-0x5A];
    i16, I16, [0, -1, i16::MIN], [-1, i16::MAX], [-0x1234];
    i32, I32, [0, -1, i32::MIN], [-1, i32::MAX], [-0x1234_5678];
    i64, I64, [0, -1, i64::MIN, i64::MAX], [-1, i64::MAX], [-0x1234_5678_9ABC_DEF0];
    i128, I128, [0, -1, i128::MIN], [-1, i128::MAX], [-0x1234_5678_9ABC_DEF0_1122_3344_5566_7788];
    isize, Isize, [0, -1, isize::MIN], [-1, isize::MAX], [-0x1234_5678_9ABC_DEF0];
    f32, F32, [0.0, -0.0, 1.5, f32::INFINITY, f32::from_bits(0x7FC0_1234), f32::from_bits(0xFFC0_0001)],
              [1.5, f32::from_bits(0xFFC0_1234)], [f32::from_bits(0x7FC0_1234)];
    f64, F64, [0.0, -0.0, 1.5, f64::INFINITY, f64::from_bits(0x7FF8_0000_DEAD_BEEF), f64::from_bits(0xFFF8_0000_0000_0001)],
              [1.5, f64::from_bits(0xFFF8_0000_DEAD_BEEF)], [f64::from_bits(0x7FF8_0000_DEAD_BEEF)];
}

macro_rules! nz_dom {
    ($($t:ty, $p:ident, $base:ty, [$($v3:expr),*], [$($v2:expr),*], [$($v1:expr),*];)*) => {$(
        impl Dom for $t {
            fn ty() -> Ty { Ty::Prim(Prim::$p) }
            fn values(cx: &mut ValCx) -> Vec<Self> {
                let raw: Vec<$base> = match cx.w { 3 => vec![$($v3),*], 2 => vec![$($v2),*], _ => vec![$($v1),*] };
                raw.into_iter().map(|x| <$t>::new(x).unwrap()).collect()
            }
            fn to_val(&self) -> Val { self.get().to_val() }
        }
        impl EpsView for $t {
            fn eps_val(&self) -> Val { self.to_val() }
            fn spans(&self, _out: &mut Vec<Span>) {}
        }
    )*};
}

nz_dom! {
    NonZeroU8, NzU8, u8, [1, 2, 0xFF], [1, 0xFF], [0x5A];
    NonZeroU16, NzU16, u16, [1, 0x100, 0xFFFF], [1, 0xFFFF], [0xA55A];
    NonZeroU32, NzU32, u32, [1, 0x1_0000, u32::MAX], [1, u32::MAX], [0xDEAD_BEEF];
    NonZeroU64, NzU64, u64, [1, 1 << 63, u64::MAX], [1, u64::MAX], [0x0123_4567_89AB_CDEF];
    NonZeroU128, NzU128, u128, [1, 1 << 127, u128::MAX], [1, u128::MAX], [0x0123_4567_89AB_CDEF_1122_3344_5566_7788];
    NonZeroUsize, NzUsize, usize, [1, 1 << 63, usize::MAX], [1, usize::MAX], [0x1122_3344_5566_7788];
    NonZeroI8, NzI8, i8, [1, -1, i8::MIN], [-1, i8::MAX], [-0x5A];
    NonZeroI16, NzI16, i16, [1, -1, i16::MIN], [-1, i16::MAX], [-0x1234];
    NonZeroI32, NzI32, i32, [1, -1, i32::MIN], [-1, i32::MAX], [-0x1234_5678];
    NonZeroI64, NzI64, i64, [1, -1, i64::MIN], [-1, i64::MAX], [-0x1234_5678_9ABC_DEF0];
    NonZeroI128, NzI128, i128, [1, -1, i128::MIN], [-1, i128::MAX], [-0x1234_5678_9ABC_DEF0_1122_3344_5566_7788];
    NonZeroIsize, NzIsize, isize, [1, -1, isize::MIN], [-1, isize::MAX], [-0x1234_5678_9ABC_DEF0];
}

impl Dom for bool {
    fn ty() -> Ty { Ty::Prim(Prim::Bool) }
    fn values(cx: &mut ValCx) -> Vec<Self> { if cx.w >= 2 { vec![false, true] } else { vec![true] } }
    fn to_val(&self) -> Val { Val::Bits(*self as u128) }
}
impl EpsView for bool {
    fn eps_val(&self) -> Val { self.to_val() }
    fn spans(&self, _out: &mut Vec<Span>) {}
}

impl Dom for char {
    fn ty() -> Ty { Ty::Prim(Prim::Char) }
    fn values(cx: &mut ValCx) -> Vec<Self> {
        match cx.w { 3 => vec!['\0', 'a', 'é', '🔥', '\u{10FFFF}'], 2 => vec!['a', '\u{10FFFF}'], _ => vec!['🔥'] }
    }
    fn to_val(&self) -> Val { Val::Bits(*self as u32 as u128) }
}
impl EpsView for char {
    fn eps_val(&self) -> Val { self.to_val() }
    fn spans(&self, _out: &mut Vec<Span>) {}
}

impl Dom for () {
    fn ty() -> Ty { Ty::Unit }
    fn values(_cx: &mut ValCx) -> Vec<Self> { vec![()] }
    fn to_val(&self) -> Val { Val::Unit }
}
impl EpsView for () {
    fn eps_val(&self) -> Val { Val::Unit }
    fn spans(&self, _out: &mut Vec<Span>) {}
}

/// Types that may appear inside `PhantomData` (hash-only).
pub trait PhTy: 'static { fn phty() -> Ty; }
impl PhTy for u8 { fn phty() -> Ty { Ty::Prim(Prim::U8) } }
impl PhTy for u64 { fn phty() -> Ty { Ty::Prim(Prim::U64) } }
impl PhTy for str { fn phty() -> Ty { Ty::Str } }
impl PhTy for String { fn phty() -> Ty { Ty::String } }
impl PhTy for (u8, u16) { fn phty() -> Ty { Ty::TupleHet(vec![Ty::Prim(Prim::U8), Ty::Prim(Prim::U16)]) } }
impl PhTy for Vec<u8> { fn phty() -> Ty { Ty::Vec(Box::new(Ty::Prim(Prim::U8))) } }
impl<T: Dom, const N: usize> PhTy for [T; N] { fn phty() -> Ty { Ty::Array(Box::new(T::ty()), N) } }

impl<X: PhTy + ?Sized> Dom for PhantomData<X> {
    fn ty() -> Ty { Ty::Phantom(Box::new(X::phty())) }
    fn values(_cx: &mut ValCx) -> Vec<Self> { vec![PhantomData] }
    fn to_val(&self) -> Val { Val::Unit }
}
impl<X: ?Sized> EpsView for PhantomData<X> {
    fn eps_val(&self) -> Val { Val::Unit }
    fn spans(&self, _out: &mut Vec<Span>) {}
}

impl Dom for RangeFull {
    fn ty() -> Ty { Ty::RangeFull }
    fn values(_cx: &mut ValCx) -> Vec<Self> { vec![..] }
    fn to_val(&self) -> Val { Val::Unit }
}
impl EpsView for RangeFull {
    fn eps_val(&self) -> Val { Val::Unit }
    fn spans(&self, _out: &mut Vec<Span>) {}
}

// ------------------------------------------------------------------ strings

fn strings(cx: &ValCx) -> Vec<String> {
    match cx.w {
        3 => vec!["".into(), "a".into(), "é🔥".into(), "0123456789abcdefg".into()],
        2 => vec!["".into(), "é🔥".into()],
        _ => vec!["é🔥z".into()],
    }
}

impl Dom for String {
    fn ty() -> Ty { Ty::String }
    fn values(cx: &mut ValCx) -> Vec<Self> { strings(cx) }
    fn to_val(&self) -> Val { Val::Str(self.clone()) }
    fn scale(&self, k: usize) -> Self { self.repeat(k & !REPEAT) }
    fn owned(&self, out: &mut Vec<(usize, usize)>) { if self.capacity() > 0 { out.push((self.as_ptr() as usize, self.capacity())); } }
}
impl Dom for Box<str> {
    fn ty() -> Ty { Ty::BoxStr }
    fn values(cx: &mut ValCx) -> Vec<Self> { strings(cx).into_iter().map(|s| s.into_boxed_str()).collect() }
    fn to_val(&self) -> Val { Val::Str(self.to_string()) }
    fn scale(&self, k: usize) -> Self { self.repeat(k & !REPEAT).into_boxed_str() }
    fn owned(&self, out: &mut Vec<(usize, usize)>) { if self.len() > 0 { out.push((self.as_ptr() as usize, self.len())); } }
}
impl<'a> EpsView for &'a str {
    fn eps_val(&self) -> Val { Val::Str(self.to_string()) }
    fn spans(&self, out: &mut Vec<Span>) {
        out.push(Span { addr: self.as_ptr() as usize, bytes: self.len(), count: self.len(), elem_size: 1, elem_align: 1, kind: BlockKind::Str });
    }
}
// Fully-copied strings inside ε-copy results (non-parameter fields)
impl EpsView for String {
    fn eps_val(&self) -> Val { Val::Str(self.clone()) }
    fn spans(&self, _out: &mut Vec<Span>) {}
    fn eps_owned(&self, out: &mut Vec<(usize, usize)>) { Dom::owned(self, out) }
}
impl EpsView for Box<str> {
    fn eps_val(&self) -> Val { Val::Str(self.to_string()) }
    fn spans(&self, _out: &mut Vec<Span>) {}
    fn eps_owned(&self, out: &mut Vec<(usize, usize)>) { Dom::owned(self, out) }
}

// ------------------------------------------------------------------ sequences

fn seq_values<T: Dom>(cx: &mut ValCx) -> Vec<Vec<T>> {
    let items = T::values(cx);
    let mut out = Vec::new();
    for &n in cx.lens() {
        if n == 0 { out.push(vec![]); continue; }
        if items.is_empty() { continue; }
        let cols: Vec<Vec<T>> = (0..n).map(|_| items.clone()).collect();
        out.extend(product(&cols, cx));
        if out.len() > cx.cap { cx.degraded = true; break; }
    }
    out
}

/// Mode bit of [`Dom::scale`].
pub const REPEAT: usize = 1 << 40;

fn scale_seq<T: Dom>(items: &[T], k: usize) -> Vec<T> {
    if k & REPEAT != 0 {
        let k = k & !REPEAT;
        let mut v = Vec::with_capacity(items.len() * k);
        for _ in 0..k { v.extend(items.iter().cloned()); }
        return v;
    }
    if T::ty().is_zero() {
        let mut v = Vec::with_capacity(items.len() * k);
        for _ in 0..k { v.extend(items.iter().cloned()); }
        v
    } else {
        items.iter().map(|x| x.scale(k)).collect()
    }
}

impl<T: Dom> Dom for Vec<T> {
    fn ty() -> Ty { Ty::Vec(Box::new(T::ty())) }
    fn values(cx: &mut ValCx) -> Vec<Self> { seq_values::<T>(cx) }
    fn to_val(&self) -> Val { Val::Seq(self.iter().map(|x| x.to_val()).collect()) }
    fn scale(&self, k: usize) -> Self { scale_seq(self, k) }
    fn owned(&self, out: &mut Vec<(usize, usize)>) {
        if self.capacity() * core::mem::size_of::<T>() > 0 { out.push((self.as_ptr() as usize, self.capacity() * core::mem::size_of::<T>())); }
        for x in self { x.owned(out); }
    }
}
impl<T: Dom> Dom for Box<[T]> {
    fn ty() -> Ty { Ty::BoxSlice(Box::new(T::ty())) }
    fn values(cx: &mut ValCx) -> Vec<Self> { seq_values::<T>(cx).into_iter().map(|v| v.into_boxed_slice()).collect() }
    fn to_val(&self) -> Val { Val::Seq(self.iter().map(|x| x.to_val()).collect()) }
    fn scale(&self, k: usize) -> Self { scale_seq(self, k).into_boxed_slice() }
    fn owned(&self, out: &mut Vec<(usize, usize)>) {
        if self.len() * core::mem::size_of::<T>() > 0 { out.push((self.as_ptr() as usize, self.len() * core::mem::size_of::<T>())); }
        for x in self.iter() { x.owned(out); }
    }
}
impl<E: EpsView> EpsView for Vec<E> {
    fn eps_val(&self) -> Val { Val::Seq(self.iter().map(|x| x.eps_val()).collect()) }
    fn spans(&self, out: &mut Vec<Span>) { for x in self { x.spans(out); } }
    fn eps_owned(&self, out: &mut Vec<(usize, usize)>) {
        if self.capacity() * core::mem::size_of::<E>() > 0 { out.push((self.as_ptr() as usize, self.capacity() * core::mem::size_of::<E>())); }
        for x in self { x.eps_owned(out); }
    }
}
impl<E: EpsView> EpsView for Box<[E]> {
    fn eps_val(&self) -> Val { Val::Seq(self.iter().map(|x| x.eps_val()).collect()) }
    fn spans(&self, out: &mut Vec<Span>) { for x in self.iter() { x.spans(out); } }
    fn eps_owned(&self, out: &mut Vec<(usize, usize)>) {
        if self.len() * core::mem::size_of::<E>() > 0 { out.push((self.as_ptr() as usize, self.len() * core::mem::size_of::<E>())); }
        for x in self.iter() { x.eps_owned(out); }
    }
}
/// Borrowed slice of zero-copy elements.
impl<'a, T: Dom> EpsView for &'a [T] {
    fn eps_val(&self) -> Val { Val::Seq(self.iter().map(|x| x.to_val()).collect()) }
    fn spans(&self, out: &mut Vec<Span>) {
        out.push(Span {
            addr: self.as_ptr() as usize,
            bytes: core::mem::size_of_val::<[T]>(self),
            count: self.len(),
            elem_size: core::mem::size_of::<T>(),
            elem_align: core::mem::align_of::<T>(),
            kind: BlockKind::Slice,
        });
    }
}
/// Reference to a single zero-copy structure (tuple, array, derived zero-copy item).
impl<'a, T: Dom> EpsView for &'a T {
    fn eps_val(&self) -> Val { (*self).to_val() }
    fn spans(&self, out: &mut Vec<Span>) {
        out.push(Span {
            addr: *self as *const T as usize,
            bytes: core::mem::size_of::<T>(),
            count: 1,
            elem_size: core::mem::size_of::<T>(),
            elem_align: core::mem::align_of::<T>(),
            kind: BlockKind::One,
        });
    }
}

impl<T: Dom, const N: usize> Dom for [T; N] {
    fn ty() -> Ty { Ty::Array(Box::new(T::ty()), N) }
    fn values(cx: &mut ValCx) -> Vec<Self> {
        if N == 0 { return vec![core::array::from_fn(|_| unreachable!())]; }
        let items = T::values(cx);
        let cols: Vec<Vec<T>> = (0..N).map(|_| items.clone()).collect();
        product(&cols, cx).into_iter().map(|v| { let mut it = v.into_iter(); core::array::from_fn(|_| it.next().unwrap()) }).collect()
    }
    fn to_val(&self) -> Val { Val::Seq(self.iter().map(|x| x.to_val()).collect()) }
    fn scale(&self, k: usize) -> Self {
        if T::ty().is_zero() { self.clone() } else { core::array::from_fn(|i| self[i].scale(k)) }
    }
    fn owned(&self, out: &mut Vec<(usize, usize)>) { for x in self { x.owned(out); } }
}
impl<E: EpsView, const N: usize> EpsView for [E; N] {
    fn eps_val(&self) -> Val { Val::Seq(self.iter().map(|x| x.eps_val()).collect()) }
    fn spans(&self, out: &mut Vec<Span>) { for x in self { x.spans(out); } }
    fn eps_owned(&self, out: &mut Vec<(usize, usize)>) { for x in self { x.eps_owned(out); } }
}

macro_rules! tuple_dom {
    ($n:expr, $($i:tt),*) => {
        impl<T: Dom> Dom for ($(tuple_dom!(@t $i T),)*) {
            fn ty() -> Ty { Ty::Tuple(Box::new(T::ty()), $n) }
            fn values(cx: &mut ValCx) -> Vec<Self> {
                let items = T::values(cx);
                let cols: Vec<Vec<T>> = (0..$n).map(|_| items.clone()).collect();
                product(&cols, cx).into_iter().map(|v| ($(v[$i].clone(),)*)).collect()
            }
            fn to_val(&self) -> Val { Val::Seq(vec![$(self.$i.to_val()),*]) }
        }
        impl<T: Dom> EpsView for ($(tuple_dom!(@t $i T),)*) {
            fn eps_val(&self) -> Val { self.to_val() }
            fn spans(&self, _out: &mut Vec<Span>) {}
        }
    };
    (@t $i:tt $t:ident) => { $t };
}
tuple_dom!(1, 0);
tuple_dom!(2, 0, 1);
tuple_dom!(3, 0, 1, 2);
tuple_dom!(4, 0, 1, 2, 3);
tuple_dom!(5, 0, 1, 2, 3, 4);
tuple_dom!(6, 0, 1, 2, 3, 4, 5);
tuple_dom!(7, 0, 1, 2, 3, 4, 5, 6);
tuple_dom!(8, 0, 1, 2, 3, 4, 5, 6, 7);
tuple_dom!(9, 0, 1, 2, 3, 4, 5, 6, 7, 8);
tuple_dom!(10, 0, 1, 2, 3, 4, 5, 6, 7, 8, 9);
tuple_dom!(11, 0, 1, 2, 3, 4, 5, 6, 7, 8, 9, 10);
tuple_dom!(12, 0, 1, 2, 3, 4, 5, 6, 7, 8, 9, 10, 11);

// ------------------------------------------------------------------ sums

impl<T: Dom> Dom for Option<T> {
    fn ty() -> Ty { Ty::Option(Box::new(T::ty())) }
    fn values(cx: &mut ValCx) -> Vec<Self> { let mut v = vec![None]; v.extend(T::values(cx).into_iter().map(Some)); v }
    fn to_val(&self) -> Val { match self { None => Val::Variant(0, vec![]), Some(x) => Val::Variant(1, vec![x.to_val()]) } }
    fn scale(&self, k: usize) -> Self { self.as_ref().map(|x| x.scale(k)) }
    fn owned(&self, out: &mut Vec<(usize, usize)>) { if let Some(x) = self { x.owned(out); } }
}
impl<E: EpsView> EpsView for Option<E> {
    fn eps_val(&self) -> Val { match self { None => Val::Variant(0, vec![]), Some(x) => Val::Variant(1, vec![x.eps_val()]) } }
    fn spans(&self, out: &mut Vec<Span>) { if let Some(x) = self { x.spans(out); } }
    fn eps_owned(&self, out: &mut Vec<(usize, usize)>) { if let Some(x) = self { x.eps_owned(out); } }
}

impl<T: Dom> Dom for Bound<T> {
    fn ty() -> Ty { Ty::Bound(Box::new(T::ty())) }
    fn values(cx: &mut ValCx) -> Vec<Self> {
        let items = T::values(cx);
        let mut v = vec![Bound::Unbounded];
        v.extend(items.iter().cloned().map(Bound::Included));
        v.extend(items.into_iter().map(Bound::Excluded));
        v
    }
    fn to_val(&self) -> Val {
        match self {
            Bound::Unbounded => Val::Variant(0, vec![]),
            Bound::Included(x) => Val::Variant(1, vec![x.to_val()]),
            Bound::Excluded(x) => Val::Variant(2, vec![x.to_val()]),
        }
    }
    fn scale(&self, k: usize) -> Self {
        match self { Bound::Unbounded => Bound::Unbounded, Bound::Included(x) => Bound::Included(x.scale(k)), Bound::Excluded(x) => Bound::Excluded(x.scale(k)) }
    }
    fn owned(&self, out: &mut Vec<(usize, usize)>) { if let Bound::Included(x) | Bound::Excluded(x) = self { x.owned(out); } }
}
impl<E: EpsView> EpsView for Bound<E> {
    fn eps_val(&self) -> Val {
        match self {
            Bound::Unbounded => Val::Variant(0, vec![]),
            Bound::Included(x) => Val::Variant(1, vec![x.eps_val()]),
            Bound::Excluded(x) => Val::Variant(2, vec![x.eps_val()]),
        }
    }
    fn spans(&self, out: &mut Vec<Span>) { if let Bound::Included(x) | Bound::Excluded(x) = self { x.spans(out); } }
    fn eps_owned(&self, out: &mut Vec<(usize, usize)>) { if let Bound::Included(x) | Bound::Excluded(x) = self { x.eps_owned(out); } }
}

impl<B: Dom, C: Dom> Dom for ControlFlow<B, C> {
    fn ty() -> Ty { Ty::ControlFlow(Box::new(B::ty()), Box::new(C::ty())) }
    fn values(cx: &mut ValCx) -> Vec<Self> {
        let mut v: Vec<Self> = B::values(cx).into_iter().map(ControlFlow::Break).collect();
        v.extend(C::values(cx).into_iter().map(ControlFlow::Continue));
        v
    }
    fn to_val(&self) -> Val {
        match self { ControlFlow::Break(b) => Val::Variant(0, vec![b.to_val()]), ControlFlow::Continue(c) => Val::Variant(1, vec![c.to_val()]) }
    }
    fn scale(&self, k: usize) -> Self {
        match self { ControlFlow::Break(b) => ControlFlow::Break(b.scale(k)), ControlFlow::Continue(c) => ControlFlow::Continue(c.scale(k)) }
    }
    fn owned(&self, out: &mut Vec<(usize, usize)>) { match self { ControlFlow::Break(b) => b.owned(out), ControlFlow::Continue(c) => c.owned(out) } }
}
impl<B: EpsView, C: EpsView> EpsView for ControlFlow<B, C> {
    fn eps_val(&self) -> Val {
        match self { ControlFlow::Break(b) => Val::Variant(0, vec![b.eps_val()]), ControlFlow::Continue(c) => Val::Variant(1, vec![c.eps_val()]) }
    }
    fn spans(&self, out: &mut Vec<Span>) { match self { ControlFlow::Break(b) => b.spans(out), ControlFlow::Continue(c) => c.spans(out) } }
    fn eps_owned(&self, out: &mut Vec<(usize, usize)>) { match self { ControlFlow::Break(b) => b.eps_owned(out), ControlFlow::Continue(c) => c.eps_owned(out) } }
}

// ------------------------------------------------------------------ ranges

impl<I: Dom> Dom for Range<I> {
    fn ty() -> Ty { Ty::Range(RangeKind::Range, Box::new(I::ty())) }
    fn values(cx: &mut ValCx) -> Vec<Self> {
        let items = I::values(cx);
        let cols = vec![items.clone(), items];
        product(&cols, cx).into_iter().map(|v| Range { start: v[0].clone(), end: v[1].clone() }).collect()
    }
    fn to_val(&self) -> Val { Val::Struct(vec![self.start.to_val(), self.end.to_val()]) }
}
impl<E: EpsView> EpsView for Range<E> {
    fn eps_val(&self) -> Val { Val::Struct(vec![self.start.eps_val(), self.end.eps_val()]) }
    fn spans(&self, out: &mut Vec<Span>) { self.start.spans(out); self.end.spans(out); }
}
impl<I: Dom> Dom for RangeInclusive<I> {
    fn ty() -> Ty { Ty::Range(RangeKind::Inclusive, Box::new(I::ty())) }
    fn values(cx: &mut ValCx) -> Vec<Self> {
        let items = I::values(cx);
        let cols = vec![items.clone(), items];
        product(&cols, cx).into_iter().map(|v| RangeInclusive::new(v[0].clone(), v[1].clone())).collect()
    }
    fn to_val(&self) -> Val { Val::Struct(vec![self.start().to_val(), self.end().to_val()]) }
}
impl<E: EpsView> EpsView for RangeInclusive<E> {
    fn eps_val(&self) -> Val { Val::Struct(vec![self.start().eps_val(), self.end().eps_val()]) }
    fn spans(&self, out: &mut Vec<Span>) { self.start().spans(out); self.end().spans(out); }
}

macro_rules! range1 {
    ($t:ident, $k:ident, $f:ident) => {
        impl<I: Dom> Dom for $t<I> {
            fn ty() -> Ty { Ty::Range(RangeKind::$k, Box::new(I::ty())) }
            fn values(cx: &mut ValCx) -> Vec<Self> { I::values(cx).into_iter().map(|x| $t { $f: x }).collect() }
            fn to_val(&self) -> Val { Val::Struct(vec![self.$f.to_val()]) }
        }
        impl<E: EpsView> EpsView for $t<E> {
            fn eps_val(&self) -> Val { Val::Struct(vec![self.$f.eps_val()]) }
            fn spans(&self, out: &mut Vec<Span>) { self.$f.spans(out); }
        }
    };
}
range1!(RangeFrom, From, start);
range1!(RangeTo, To, end);
range1!(RangeToInclusive, ToInclusive, end);

/// Raw in-memory bytes of a zero-copy value (for cross-checking the model's layout).
pub fn raw_image<T: Copy>(v: &T) -> Vec<u8> {
    unsafe { core::slice::from_raw_parts(v as *const T as *const u8, core::mem::size_of::<T>()).to_vec() }
}
