//! Generic per-type checks. Every function explores, exhaustively, a bounded space of
//! (value, environment) configurations for one type `T` against the reference model.

use crate::cx::*;
use crate::dom::*;
use crate::env::*;
use crate::model::*;
use core::marker::PhantomData;
use epserde::deser::{self, DeserType, Deserialize, DeserializeInner, ReaderWithPos, SliceWithPos};
use epserde::ser::{Serialize, SerializeInner, WriteNoStd, WriteWithNames, WriteWithPos, WriterWithPos};
use epserde::traits::*;
use serde_json::json;
use std::io::Cursor;

pub fn err_kind(e: &deser::Error) -> String {
    use deser::Error::*;
    match e {
        FileOpenError(_) => "FileOpenError".into(),
        ReadError => "ReadError".into(),
        EndiannessError => "EndiannessError".into(),
        AlignmentError => "AlignmentError".into(),
        MajorVersionMismatch(v) => format!("MajorVersionMismatch({})", v),
        MinorVersionMismatch(v) => format!("MinorVersionMismatch({})", v),
        UsizeSizeMismatch(v) => format!("UsizeSizeMismatch({})", v),
        MagicCookieError(v) => format!("MagicCookieError({:#x})", v),
        InvalidTag(v) => format!("InvalidTag({})", v),
        WrongTypeHash { ser_type_hash, self_type_hash, .. } => format!("WrongTypeHash(ser={:#x},self={:#x})", ser_type_hash, self_type_hash),
        WrongAlignHash { ser_align_hash, self_align_hash, .. } => format!("WrongAlignHash(ser={:#x},self={:#x})", ser_align_hash, self_align_hash),
    }
}

/// Outcome of running a piece of the subject.
#[derive(Clone, Debug, PartialEq, Eq)]
pub enum Out<V> { Ok(V), Err(String), Panic(String) }

impl<V> Out<V> {
    pub fn class(&self) -> String {
        match self {
            Out::Ok(_) => "ok".into(),
            Out::Err(e) => format!("err:{}", e.split('(').next().unwrap_or(e)),
            Out::Panic(m) => format!("panic:{}", panic_class(m)),
        }
    }
    pub fn describe(&self) -> String {
        match self { Out::Ok(_) => "Ok".into(), Out::Err(e) => format!("Err({})", e), Out::Panic(m) => format!("panic: {}", m) }
    }
}

pub fn cap_for(tier: Tier) -> usize { tier.pick(24, 200) }

/// Compare bytes under a padding mask.
pub fn masked_eq(a: &[u8], b: &[u8], mask: &[bool]) -> bool {
    a.len() == b.len() && a.iter().zip(b).zip(mask).all(|((x, y), m)| *m || x == y)
}

/// Recording `WriteWithNames`: forwards to a `WriterWithPos` and logs align / write_bytes.
pub struct RecWriter<'a, W: WriteNoStd> {
    pub inner: WriterWithPos<'a, W>,
    /// (pos_before, max_size_of, pos_after)
    pub aligns: Vec<(usize, usize, usize)>,
    /// (pos, len, max_size_of, align_of, size_of)
    pub blocks: Vec<(usize, usize, usize, usize, usize)>,
}
impl<'a, W: WriteNoStd> RecWriter<'a, W> {
    pub fn new(w: &'a mut W) -> Self { RecWriter { inner: WriterWithPos::new(w), aligns: vec![], blocks: vec![] } }
}
impl<W: WriteNoStd> WriteNoStd for RecWriter<'_, W> {
    fn write_all(&mut self, buf: &[u8]) -> epserde::ser::Result<()> { self.inner.write_all(buf) }
    fn flush(&mut self) -> epserde::ser::Result<()> { self.inner.flush() }
}
impl<W: WriteNoStd> WriteWithPos for RecWriter<'_, W> {
    fn pos(&self) -> usize { self.inner.pos() }
}
impl<W: WriteNoStd> WriteWithNames for RecWriter<'_, W> {
    fn align<V: MaxSizeOf>(&mut self) -> epserde::ser::Result<()> {
        let before = self.pos();
        let r = self.inner.align::<V>();
        let after = self.pos();
        self.aligns.push((before, V::max_size_of(), after));
        r
    }
    fn write<V: SerializeInner>(&mut self, _field_name: &str, value: &V) -> epserde::ser::Result<()> {
        value._serialize_inner(self)
    }
    fn write_bytes<V: SerializeInner + ZeroCopy>(&mut self, value: &[u8]) -> epserde::ser::Result<()> {
        self.blocks.push((self.pos(), value.len(), V::max_size_of(), core::mem::align_of::<V>(), core::mem::size_of::<V>()));
        self.inner.write_all(value)
    }
}

pub struct Ck<T>(PhantomData<T>);

impl<T> Ck<T>
where
    T: Dom + Serialize + Deserialize + SerializeInner + DeserializeInner + TypeHash + AlignHash,
    for<'a> DeserType<'a, T>: EpsView,
{
    pub fn type_name() -> &'static str { core::any::type_name::<<T as SerializeInner>::SerType>() }

    pub fn ser(v: &T) -> Out<(Vec<u8>, usize)> {
        let mut buf: Vec<u8> = Vec::new();
        match guarded(|| v.serialize(&mut buf)) {
            Ok(Ok(n)) => Out::Ok((buf, n)),
            Ok(Err(e)) => Out::Err(format!("{:?}", e)),
            Err(p) => Out::Panic(p),
        }
    }

    pub fn full(bytes: &[u8]) -> Out<(Val, usize)> {
        let mut cur = Cursor::new(bytes);
        match guarded(|| T::deserialize_full(&mut cur).map(|x| x.to_val())) {
            Ok(Ok(v)) => Out::Ok((v, cur.position() as usize)),
            Ok(Err(e)) => Out::Err(err_kind(&e)),
            Err(p) => Out::Panic(p),
        }
    }

    pub fn eps(placed: &[u8]) -> Out<(Val, Vec<Span>)> {
        match guarded(|| T::deserialize_eps(placed).map(|x| { let mut s = vec![]; x.spans(&mut s); (x.eps_val(), s) })) {
            Ok(Ok(v)) => Out::Ok(v),
            Ok(Err(e)) => Out::Err(err_kind(&e)),
            Err(p) => Out::Panic(p),
        }
    }

    fn vdesc(i: usize, v: &T) -> serde_json::Value {
        let s = format!("{:?}", v.to_val());
        json!({"value_index": i, "value": if s.len() > 300 { format!("{}…", &s[..300]) } else { s }})
    }

    fn nontrivial(enc: &Encoded) -> bool { enc.bytes.len() > enc.header_len || enc.events.len() > 8 }

    fn domain(cx: &mut Cx) -> Vec<T> {
        let (vals, w, degraded) = domain::<T>(cap_for(cx.tier));
        cx.count(&format!("domain_width_{}", w), 1);
        if degraded { cx.count("domain_star_product", 1); }
        vals
    }

    // ------------------------------------------------------------------ C01

    /// Full-copy round trip over the complete value domain, plus the inner API at every start
    /// offset residue 0..64.
    pub fn c01(cx: &mut Cx) {
        let ty = T::ty();
        let vals = Self::domain(cx);
        for (i, v) in vals.iter().enumerate() {
            let want = v.to_val();
            let enc = encode(&ty, &want, Self::type_name());
            cx.evals += 1;
            cx.case(hash64(&[cx.type_id.as_bytes(), format!("{:?}", want).as_bytes()]), Self::nontrivial(&enc) || true);
            let (bytes, _) = match Self::ser(v) {
                Out::Ok(b) => b,
                o => { cx.outcome(&o.class()); cx.violate(&format!("ser-{}", o.class()), json!({"value": Self::vdesc(i, v), "observed": o.describe()})); continue; }
            };
            cx.transitions += enc.events.len() as u64;
            let o = Self::full(&bytes);
            cx.outcome(&format!("full-{}", o.class()));
            match &o {
                Out::Ok((got, _)) if *got == want => {}
                Out::Ok((got, _)) => cx.violate("full-wrong-value", json!({"value": Self::vdesc(i, v), "expected": format!("{:?}", want), "observed": format!("{:?}", got)})),
                o => cx.violate(&format!("full-{}", o.class()), json!({"value": Self::vdesc(i, v), "observed": o.describe()})),
            }
            if i < 1 { cx.sample(json!({"type": cx.type_id, "value": format!("{:?}", want), "bytes": hex(&bytes[enc.header_len.min(bytes.len())..])})); }
        }
        // inner API at every residue of the start offset
        let reps = cx.tier.pick(2, 6).min(vals.len());
        for (i, v) in vals.iter().take(reps).enumerate() {
            let want = v.to_val();
            for r in 0..64usize {
                cx.evals += 1;
                let out = guarded(|| -> Result<Val, String> {
                    let mut buf: Vec<u8> = Vec::new();
                    {
                        let mut w = WriterWithPos::new(&mut buf);
                        w.write_all(&vec![0xA5u8; r]).map_err(|e| format!("{:?}", e))?;
                        v._serialize_inner(&mut w).map_err(|e| format!("{:?}", e))?;
                    }
                    let mut cur = Cursor::new(&buf[..]);
                    let mut rd = ReaderWithPos::new(&mut cur);
                    let mut skip = vec![0u8; r];
                    epserde::deser::ReadNoStd::read_exact(&mut rd, &mut skip).map_err(|e| err_kind(&e))?;
                    let got = T::_deserialize_full_inner(&mut rd).map_err(|e| err_kind(&e))?;
                    if epserde::deser::ReadWithPos::pos(&rd) != buf.len() { return Err(format!("consumed {} of {}", epserde::deser::ReadWithPos::pos(&rd), buf.len())); }
                    Ok(got.to_val())
                });
                match out {
                    Ok(Ok(got)) if got == want => cx.outcome("inner-ok"),
                    Ok(Ok(got)) => { cx.outcome("inner-wrong"); cx.violate("inner-full-wrong-value", json!({"value": Self::vdesc(i, v), "start_offset": r, "observed": format!("{:?}", got)})) }
                    Ok(Err(e)) => { cx.outcome("inner-err"); cx.violate(&format!("inner-full-err:{}", e.split('(').next().unwrap()), json!({"value": Self::vdesc(i, v), "start_offset": r, "observed": e})) }
                    Err(p) => { cx.outcome("inner-panic"); cx.violate(&format!("inner-full-panic:{}", panic_class(&p)), json!({"value": Self::vdesc(i, v), "start_offset": r, "observed": p})) }
                }
            }
        }
    }

    // ------------------------------------------------------------------ C02 + C03

    /// ε-copy round trip == original == full copy (C02); with `spans`, also the C03 oracle.
    pub fn c02(cx: &mut Cx, c03: bool) {
        let ty = T::ty();
        let vals = Self::domain(cx);
        let mut arena = Arena::new(1 << 16);
        for (i, v) in vals.iter().enumerate() {
            let want = v.to_val();
            let enc = encode(&ty, &want, Self::type_name());
            cx.evals += 1;
            let nblocks = enc.events.iter().filter(|e| matches!(e, Ev::Block { borrowed: true, .. })).count();
            cx.case(hash64(&[cx.type_id.as_bytes(), format!("{:?}", want).as_bytes()]), !c03 || nblocks > 0);
            let (bytes, _) = match Self::ser(v) {
                Out::Ok(b) => b,
                o => { cx.outcome(&format!("ser-{}", o.class())); cx.violate(&format!("ser-{}", o.class()), json!({"value": Self::vdesc(i, v), "observed": o.describe()})); continue; }
            };
            if bytes.len() + 256 > arena.cap() { arena = Arena::new(bytes.len() * 2 + 4096); }
            let base = arena.base();
            let placed = arena.place(0, &bytes);
            let o = Self::eps(placed);
            cx.outcome(&format!("eps-{}", o.class()));
            cx.transitions += enc.events.len() as u64;
            let (got, spans) = match o {
                Out::Ok(x) => x,
                o => { cx.violate(&format!("eps-{}", o.class()), json!({"value": Self::vdesc(i, v), "observed": o.describe()})); continue; }
            };
            if !c03 {
                if got != want {
                    cx.violate("eps-wrong-value", json!({"value": Self::vdesc(i, v), "expected": format!("{:?}", want), "observed": format!("{:?}", got)}));
                }
                match Self::full(&bytes) {
                    Out::Ok((f, _)) if f == got => {}
                    o => cx.violate("eps-disagrees-with-full", json!({"value": Self::vdesc(i, v), "eps": format!("{:?}", got), "full": o.describe()})),
                }
                if i < 1 { cx.sample(json!({"type": cx.type_id, "value": format!("{:?}", want), "eps": format!("{:?}", got)})); }
                continue;
            }
            // C03: spans against the model's borrowed blocks
            let blocks: Vec<&Ev> = enc.events.iter().filter(|e| matches!(e, Ev::Block { borrowed: true, .. })).collect();
            if blocks.len() != spans.len() {
                cx.violate("span-count", json!({"value": Self::vdesc(i, v), "expected_blocks": blocks.len(), "observed_spans": spans.len()}));
                continue;
            }
            for (b, s) in blocks.iter().zip(&spans) {
                if let Ev::Block { off, len, elem_size, count, kind, .. } = b {
                    cx.transitions += 1;
                    let mut bad = vec![];
                    if s.kind != *kind { bad.push("kind"); }
                    if s.count != *count { bad.push("count"); }
                    if s.bytes != *len { bad.push("length"); }
                    if s.elem_size != *elem_size { bad.push("elem-size"); }
                    if s.addr == 0 { bad.push("null"); }
                    if s.elem_align > 0 && s.addr % s.elem_align != 0 { bad.push("misaligned"); }
                    if *len > 0 {
                        if s.addr != base + off { bad.push("address"); }
                        if s.addr < base || s.addr + s.bytes > base + bytes.len() { bad.push("out-of-bounds"); }
                    }
                    if !bad.is_empty() {
                        cx.violate(&format!("span-{}", bad.join("+")), json!({"value": Self::vdesc(i, v), "model_block": format!("{:?}", b), "span": format!("{:?}", s), "base": base}));
                    }
                }
            }
            if i < 1 && !spans.is_empty() { cx.sample(json!({"type": cx.type_id, "value": format!("{:?}", want), "spans": spans.iter().map(|s| json!({"off": s.addr.wrapping_sub(base), "bytes": s.bytes, "count": s.count})).collect::<Vec<_>>() })); }
            // allocation independence under scaling of the borrowed payload
            if nblocks > 0 && i < cx.tier.pick(6, 40) {
                let mut seen: Option<AllocSnap> = None;
                for k in [1usize, 8, 64] {
                    let sv = v.scale(k);
                    let sb = match Self::ser(&sv) { Out::Ok((b, _)) => b, _ => break };
                    let mut big = Arena::new(sb.len() + 4096);
                    let placed = big.place(0, &sb);
                    cx.evals += 1;
                    let d = guarded(|| {
                        let a = alloc_snap();
                        let r = T::deserialize_eps(placed);
                        let d = alloc_delta(a);
                        let okv = r.as_ref().map(|x| x.eps_val()).ok();
                        drop(r);
                        (d, okv)
                    });
                    match d {
                        Ok((d, Some(val))) => {
                            if val != sv.to_val() { cx.violate("scaled-eps-wrong-value", json!({"value": Self::vdesc(i, v), "scale": k})); }
                            let d = AllocSnap { frees: 0, ..d };
                            match seen {
                                None => seen = Some(d),
                                Some(s0) if s0 == d => {}
                                Some(s0) => { cx.violate("alloc-depends-on-borrowed-length", json!({"value": Self::vdesc(i, v), "scale": k, "alloc_k1": format!("{:?}", s0), "alloc_k": format!("{:?}", d)})); break; }
                            }
                        }
                        _ => break, // failures are C02's business
                    }
                }
            }
        }
    }

    // ------------------------------------------------------------------ C06

    /// Bytes == reference encoder, header hash words == model recipe.
    pub fn c06(cx: &mut Cx) {
        let ty = T::ty();
        let vals = Self::domain(cx);
        // real hashes through the real trait impls
        use core::hash::Hasher;
        let mut th = xxhash_rust::xxh3::Xxh3::new();
        <T as TypeHash>::type_hash(&mut th);
        let mut ah = xxhash_rust::xxh3::Xxh3::new();
        <T as AlignHash>::align_hash(&mut ah, &mut 0);
        let (rth, rah) = (th.finish(), ah.finish());
        cx.evals += 1;
        if rth != type_hash(&ty) {
            cx.violate("type-hash-differs-from-recipe", json!({"real": format!("{:#x}", rth), "model": format!("{:#x}", type_hash(&ty)), "ty": ty.show()}));
        }
        if rah != align_hash(&ty) {
            cx.violate("align-hash-differs-from-recipe", json!({"real": format!("{:#x}", rah), "model": format!("{:#x}", align_hash(&ty)), "ty": ty.show()}));
        }
        cx.notes.push(format!("HASH {} {:016x} {:016x}", cx.type_id, rth, rah));
        for (i, v) in vals.iter().enumerate() {
            let want = v.to_val();
            let enc = encode(&ty, &want, Self::type_name());
            cx.evals += 1;
            cx.case(hash64(&[cx.type_id.as_bytes(), format!("{:?}", want).as_bytes()]), true);
            let (bytes, _) = match Self::ser(v) {
                Out::Ok(b) => b,
                o => { cx.outcome(&format!("ser-{}", o.class())); cx.violate(&format!("ser-{}", o.class()), json!({"value": Self::vdesc(i, v), "observed": o.describe()})); continue; }
            };
            cx.transitions += enc.events.len() as u64;
            if masked_eq(&bytes, &enc.bytes, &enc.mask) {
                cx.outcome("bytes-equal");
            } else {
                cx.outcome("bytes-differ");
                let first = bytes.iter().zip(&enc.bytes).zip(&enc.mask).position(|((a, b), m)| !*m && a != b).unwrap_or(bytes.len().min(enc.bytes.len()));
                let region = if first < 8 { "magic" } else if first < 12 { "version" } else if first < 13 { "usize-size" } else if first < 21 { "type-hash" } else if first < 29 { "align-hash" } else if first < enc.header_len { "type-name" } else { "body" };
                cx.violate(&format!("bytes-differ-in-{}", region), json!({"value": Self::vdesc(i, v), "first_diff": first, "impl_len": bytes.len(), "model_len": enc.bytes.len(),
                    "impl": hex(&bytes[enc.header_len.min(bytes.len())..]), "model": hex(&enc.bytes[enc.header_len..])}));
            }
            if i < 1 { cx.sample(json!({"type": cx.type_id, "value": format!("{:?}", want), "len": bytes.len(), "events": enc.events.len()})); }
        }
    }

    // ------------------------------------------------------------------ C07

    /// Padding and byte counts, with every start-offset residue through the inner API.
    pub fn c07(cx: &mut Cx) {
        let ty = T::ty();
        let vals = Self::domain(cx);
        let nres = cx.tier.pick(64usize, 128);
        for (i, v) in vals.iter().enumerate() {
            let want = v.to_val();
            // top-level byte counts
            cx.evals += 1;
            cx.case(hash64(&[cx.type_id.as_bytes(), format!("{:?}", want).as_bytes()]), true);
            let enc = encode(&ty, &want, Self::type_name());
            match Self::ser(v) {
                Out::Ok((bytes, n)) => {
                    if n != bytes.len() || n != enc.bytes.len() {
                        cx.violate("serialize-count-mismatch", json!({"value": Self::vdesc(i, v), "returned": n, "sink_received": bytes.len(), "model": enc.bytes.len()}));
                    }
                    // consumption: full
                    let mut ext = bytes.clone();
                    ext.extend_from_slice(&[0x5A; 40]);
                    match Self::full(&ext) {
                        Out::Ok((_, pos)) if pos == bytes.len() => cx.outcome("full-consumed-exact"),
                        Out::Ok((_, pos)) => cx.violate("full-consumes-wrong-count", json!({"value": Self::vdesc(i, v), "consumed": pos, "written": bytes.len()})),
                        o => cx.violate(&format!("full-{}", o.class()), json!({"value": Self::vdesc(i, v), "observed": o.describe()})),
                    }
                    // consumption: eps (header check + inner on a SliceWithPos)
                    let mut arena = Arena::new(ext.len() + 4096);
                    let placed = arena.place(0, &ext);
                    let r = guarded(|| -> Result<usize, String> {
                        let mut b = SliceWithPos::new(placed);
                        deser::check_header::<T>(&mut b).map_err(|e| err_kind(&e))?;
                        let _x = T::_deserialize_eps_inner(&mut b).map_err(|e| err_kind(&e))?;
                        Ok(b.pos)
                    });
                    match r {
                        Ok(Ok(pos)) if pos == bytes.len() => cx.outcome("eps-consumed-exact"),
                        Ok(Ok(pos)) => cx.violate("eps-consumes-wrong-count", json!({"value": Self::vdesc(i, v), "consumed": pos, "written": bytes.len()})),
                        Ok(Err(e)) => cx.violate(&format!("eps-err:{}", e.split('(').next().unwrap()), json!({"value": Self::vdesc(i, v), "observed": e})),
                        Err(p) => cx.violate(&format!("eps-panic:{}", panic_class(&p)), json!({"value": Self::vdesc(i, v), "observed": p})),
                    }
                }
                o => { cx.violate(&format!("ser-{}", o.class()), json!({"value": Self::vdesc(i, v), "observed": o.describe()})); continue; }
            }
            if i >= cx.tier.pick(3, 12) { continue; }
            // inner API at every residue with a recording writer
            for r in 0..nres {
                cx.evals += 1;
                let mut buf: Vec<u8> = Vec::new();
                let rec = guarded(|| {
                    let mut w = RecWriter::new(&mut buf);
                    w.write_all(&vec![0u8; r]).unwrap();
                    let res = v._serialize_inner(&mut w);
                    (res.map_err(|e| format!("{:?}", e)), w.aligns, w.blocks, w.inner.pos())
                });
                let (res, aligns, blocks, endpos) = match rec {
                    Ok(x) => x,
                    Err(p) => { cx.violate(&format!("inner-ser-panic:{}", panic_class(&p)), json!({"value": Self::vdesc(i, v), "start_offset": r, "observed": p})); break; }
                };
                if let Err(e) = res { cx.violate("inner-ser-err", json!({"value": Self::vdesc(i, v), "start_offset": r, "observed": e})); break; }
                if endpos != buf.len() { cx.violate("writer-pos-mismatch", json!({"value": Self::vdesc(i, v), "start_offset": r, "pos": endpos, "len": buf.len()})); }
                // model trace at the same start offset
                let mut me = Encoded::default();
                me.bytes = vec![0u8; r];
                me.mask = vec![false; r];
                encode_value(&ty, &want, &mut me, true);
                cx.transitions += (aligns.len() + blocks.len()) as u64;
                if !masked_eq(&buf, &me.bytes, &me.mask) {
                    cx.violate("inner-bytes-differ-from-model", json!({"value": Self::vdesc(i, v), "start_offset": r, "impl": hex(&buf[r..]), "model": hex(&me.bytes[r..])}));
                }
                // per-alignment checks (the property, on the observed events)
                for (before, unit, after) in &aligns {
                    let mut bad = vec![];
                    if *unit == 0 || !unit.is_power_of_two() { bad.push("unit-not-power-of-two"); }
                    else {
                        if after % unit != 0 { bad.push("block-offset-not-multiple-of-unit"); }
                        if after - before >= *unit { bad.push("gap-not-minimal"); }
                    }
                    if buf[*before..*after].iter().any(|b| *b != 0) { bad.push("gap-not-zero"); }
                    if !bad.is_empty() { cx.violate(&format!("pad-{}", bad.join("+")), json!({"value": Self::vdesc(i, v), "start_offset": r, "before": before, "after": after, "unit": unit})); }
                }
                for (pos, _len, unit, al, _sz) in &blocks {
                    let mut bad = vec![];
                    if *unit == 0 || !unit.is_power_of_two() { bad.push("unit-not-power-of-two"); }
                    else {
                        if unit < al { bad.push("unit-below-native-align"); }
                        if pos % unit != 0 { bad.push("block-offset-not-multiple-of-unit"); }
                    }
                    if !bad.is_empty() { cx.violate(&format!("block-{}", bad.join("+")), json!({"value": Self::vdesc(i, v), "start_offset": r, "pos": pos, "unit": unit, "align_of": al})); }
                }
                // unit >= unit of every field: the model's documented unit is a lower bound
                let mblocks: Vec<&Ev> = me.events.iter().filter(|e| matches!(e, Ev::Block { kind: BlockKind::Slice | BlockKind::One, .. })).collect();
                if mblocks.len() == blocks.len() {
                    for (mb, (pos, len, unit, _, _)) in mblocks.iter().zip(&blocks) {
                        if let Ev::Block { off, len: ml, .. } = mb {
                            if off != pos || ml != len { cx.violate("block-position-differs-from-model", json!({"value": Self::vdesc(i, v), "start_offset": r, "impl": [pos, len], "model": [off, ml], "unit": unit})); }
                        }
                    }
                }
                // deserializers consume exactly, at this offset
                let rd = guarded(|| -> Result<(usize, usize), String> {
                    let mut cur = Cursor::new(&buf[..]);
                    let mut rdr = ReaderWithPos::new(&mut cur);
                    let mut skip = vec![0u8; r];
                    epserde::deser::ReadNoStd::read_exact(&mut rdr, &mut skip).map_err(|e| err_kind(&e))?;
                    T::_deserialize_full_inner(&mut rdr).map_err(|e| err_kind(&e))?;
                    let fpos = epserde::deser::ReadWithPos::pos(&rdr);
                    let mut arena = Arena::new(buf.len() + 4096);
                    let placed = arena.place(0, &buf);
                    let mut sp = SliceWithPos { data: &placed[r..], pos: r };
                    let _x = T::_deserialize_eps_inner(&mut sp).map_err(|e| format!("eps:{}", err_kind(&e)))?;
                    Ok((fpos, sp.pos))
                });
                match rd {
                    Ok(Ok((f, e))) if f == buf.len() && e == buf.len() => cx.outcome("inner-consumed-exact"),
                    Ok(Ok((f, e))) => cx.violate("inner-consumes-wrong-count", json!({"value": Self::vdesc(i, v), "start_offset": r, "full": f, "eps": e, "written": buf.len()})),
                    Ok(Err(e)) => cx.violate(&format!("inner-deser-err:{}", e.split('(').next().unwrap()), json!({"value": Self::vdesc(i, v), "start_offset": r, "observed": e})),
                    Err(p) => cx.violate(&format!("inner-deser-panic:{}", panic_class(&p)), json!({"value": Self::vdesc(i, v), "start_offset": r, "observed": p})),
                }
            }
            if i < 1 { cx.sample(json!({"type": cx.type_id, "value": format!("{:?}", want), "residues": nres})); }
        }
    }
}
