//! Per-type checks, part 1 (C01 C02 C03 C06 C07). Every function explores, exhaustively, a
//! bounded space of (value, environment) configurations for one type against the reference
//! model. The type is reached through `&dyn TypeOps`.

use crate::cx::*;
use crate::dom::*;
use crate::env::*;
use crate::model::*;
pub use crate::ops::*;
use serde_json::json;

pub fn cap_for(tier: Tier) -> usize { tier.pick(24, 200) }

/// Compare bytes under a padding mask.
pub fn masked_eq(a: &[u8], b: &[u8], mask: &[bool]) -> bool {
    a.len() == b.len() && a.iter().zip(b).zip(mask).all(|((x, y), m)| *m || x == y)
}

pub fn vdesc(i: usize, v: &Val) -> serde_json::Value {
    let s = format!("{:?}", v);
    json!({"value_index": i, "value": if s.len() > 300 { format!("{}…", s.chars().take(300).collect::<String>()) } else { s }})
}

pub fn build(t: &dyn TypeOps, cx: &mut Cx) -> usize {
    let (n, w, degraded) = t.build_domain(cap_for(cx.tier));
    cx.count(&format!("domain_width_{}", w), 1);
    if degraded { cx.count("domain_star_product", 1); }
    n
}

pub fn case_hash(cx: &Cx, v: &Val) -> u64 { hash64(&[cx.type_id.as_bytes(), format!("{:?}", v).as_bytes()]) }


/// Scaling factors that push the borrowed payload of a value past a page, an 8 KiB
/// BufReader/BufWriter buffer and 64 KiB.
/// Scalings of the large-value passes: payloads past a page / 8 KiB / 64 KiB, payloads of an exact
/// multiple of 2^8, 2^12 and 2^16 items, and (REPEAT mode) sequences of more than 2^16 items whatever the items.
pub const LARGE_SCALES: [usize; 7] = [256, 3_000, 4_096, 30_000, 65_536, crate::dom::REPEAT | 257, crate::dom::REPEAT | 65_537];

/// Predicted stream length of value `i` under scaling `k` (lengths are affine in `k`).
pub fn scaled_len(t: &dyn TypeOps, i: usize, k: usize) -> usize {
    let m = k & crate::dom::REPEAT;
    match (t.ser_scaled(i, m | 1), t.ser_scaled(i, m | 2)) {
        (Out::Ok((a, _)), Out::Ok((b, _))) => a.len() + b.len().saturating_sub(a.len()) * ((k & !crate::dom::REPEAT) - 1),
        _ => 0,
    }
}

/// The two widest scalings are applied only while the stream stays below this size (quick tier).
pub const LARGE_CAP: usize = 1 << 20;

/// Index of the first value that the large-value pass with scaling `k` makes larger, if any.
pub fn first_growing(t: &dyn TypeOps, n: usize, k: usize) -> Option<usize> {
    if k & crate::dom::REPEAT == 0 { return first_scalable(t, n); }
    (0..n).find(|&i| match (t.ser(i), t.ser_scaled(i, crate::dom::REPEAT | 2)) { (Out::Ok((a, _)), Out::Ok((b, _))) => b.len() > a.len(), _ => false })
}

/// Index of the first value whose model trace has a non-empty borrowed block (the values
/// that `scale` makes larger), if any.
pub fn first_scalable(t: &dyn TypeOps, n: usize) -> Option<usize> {
    let ty = t.ty();
    (0..n).find(|&i| encode(&ty, &t.val(i), t.type_name()).events.iter().any(|e| matches!(e, Ev::Block { borrowed: true, len, .. } if *len > 0)))
}

// ------------------------------------------------------------------ C01

/// Full-copy round trip over the complete value domain, plus the inner API at every start
/// offset residue 0..64.
pub fn c01(t: &dyn TypeOps, cx: &mut Cx) {
    let ty = t.ty();
    let n = build(t, cx);
    for i in 0..n {
        let want = t.val(i);
        let enc = encode(&ty, &want, t.type_name());
        cx.evals += 1;
        cx.case(case_hash(cx, &want), true);
        let (bytes, _) = match t.ser(i) {
            Out::Ok(b) => b,
            o => { cx.outcome(&o.class()); cx.violate(&format!("ser-{}", o.class()), json!({"value": vdesc(i, &want), "observed": o.describe()})); continue; }
        };
        cx.transitions += enc.events.len() as u64;
        let o = t.full(&bytes);
        cx.outcome(&format!("full-{}", o.class()));
        match &o {
            Out::Ok((got, _)) if *got == want => {}
            Out::Ok((got, _)) => cx.violate("full-wrong-value", json!({"value": vdesc(i, &want), "expected": format!("{:?}", want), "observed": format!("{:?}", got)})),
            o => cx.violate(&format!("full-{}", o.class()), json!({"value": vdesc(i, &want), "observed": o.describe()})),
        }
        if i < 1 { cx.sample(json!({"type": cx.type_id, "value": format!("{:?}", want), "bytes": hex(&bytes[enc.header_len.min(bytes.len())..])})); }
    }
    let reps = cx.tier.pick(2, 6).min(n);
    for i in 0..reps {
        let want = t.val(i);
        for r in 0..64usize {
            cx.evals += 1;
            let s = match t.inner_ser(i, r) {
                Out::Ok(s) => s,
                o => { cx.outcome("inner-ser-fail"); cx.violate(&format!("inner-ser-{}", o.class()), json!({"value": vdesc(i, &want), "start_offset": r, "observed": o.describe()})); continue; }
            };
            match t.inner_full(&s.bytes, r) {
                Out::Ok((got, pos)) if got == want && pos == s.bytes.len() => cx.outcome("inner-ok"),
                Out::Ok((got, pos)) if got == want => { cx.outcome("inner-count"); cx.violate("inner-full-consumes-wrong-count", json!({"value": vdesc(i, &want), "start_offset": r, "consumed": pos, "written": s.bytes.len()})) }
                Out::Ok((got, _)) => { cx.outcome("inner-wrong"); cx.violate("inner-full-wrong-value", json!({"value": vdesc(i, &want), "start_offset": r, "observed": format!("{:?}", got)})) }
                o => { cx.outcome("inner-fail"); cx.violate(&format!("inner-full-{}", o.class()), json!({"value": vdesc(i, &want), "start_offset": r, "observed": o.describe()})) }
            }
        }
    }
    // large values: the same skeleton with every sequence payload scaled past a page / 8 KiB / 64 KiB
    for k in LARGE_SCALES {
        if let Some(i) = first_growing(t, n, k) {
            if (k & !crate::dom::REPEAT) > 30_000 && cx.tier == Tier::Quick && scaled_len(t, i, k) > LARGE_CAP { cx.count("large_values_over_cap_left_to_thorough", 1); continue; }
            cx.evals += 1;
            match t.ser_scaled(i, k) {
                Out::Ok((bytes, sval)) => {
                    let enc = encode(&ty, &sval, t.type_name());
                    if !masked_eq(&bytes, &enc.bytes, &enc.mask) { cx.violate("large-value-bytes-differ-from-model", json!({"value_index": i, "scale": k, "len": bytes.len(), "model_len": enc.bytes.len()})); }
                    match t.full(&bytes) {
                        Out::Ok((got, pos)) if got == sval && pos == bytes.len() => cx.outcome("large-full-ok"),
                        Out::Ok((got, _)) if got != sval => cx.violate("large-value-full-wrong-value", json!({"value_index": i, "scale": k, "len": bytes.len()})),
                        Out::Ok((_, pos)) => cx.violate("large-value-full-consumes-wrong-count", json!({"value_index": i, "scale": k, "consumed": pos, "len": bytes.len()})),
                        o => cx.violate(&format!("large-value-full-{}", o.class()), json!({"value_index": i, "scale": k, "observed": o.describe()})),
                    }
                }
                o => cx.violate(&format!("large-value-ser-{}", o.class()), json!({"value_index": i, "scale": k, "observed": o.describe()})),
            }
        }
    }
}

// ------------------------------------------------------------------ C02 + C03

/// ε-copy round trip == original == full copy (C02); with `c03`, the span/allocation oracle.
pub fn c02(t: &dyn TypeOps, cx: &mut Cx, c03: bool) {
    c02_entry(t, cx, c03, false);
    // the same oracles on the stream that `serialize_with_schema` writes (first values)
    c02_entry(t, cx, c03, true);
}

fn c02_entry(t: &dyn TypeOps, cx: &mut Cx, c03: bool, schema: bool) {
    let ty = t.ty();
    let n = if schema { t.len().min(cx.tier.pick(2, 6)) } else { build(t, cx) };
    let mut arena = Arena::new(1 << 16);
    let growing: Vec<Option<usize>> = if c03 || schema { vec![] } else { LARGE_SCALES.iter().map(|k| first_growing(t, n, *k)).collect() };
    for i in 0..n {
        let want = t.val(i);
        let enc = encode(&ty, &want, t.type_name());
        cx.evals += 1;
        let nblocks = enc.events.iter().filter(|e| matches!(e, Ev::Block { borrowed: true, .. })).count();
        if !schema { cx.case(case_hash(cx, &want), !c03 || nblocks > 0); }
        let (bytes, _) = match if schema { t.ser_schema(i).map(|s| { let n = s.bytes.len(); (s.bytes, n) }) } else { t.ser(i) } {
            Out::Ok(b) => b,
            o => { cx.outcome(&format!("ser-{}", o.class())); cx.violate(&format!("ser-{}", o.class()), json!({"value": vdesc(i, &want), "observed": o.describe()})); continue; }
        };
        if bytes.len() + 256 > arena.cap() { arena = Arena::new(bytes.len() * 2 + 4096); }
        let base = arena.base();
        let placed = arena.place(0, &bytes);
        let o = t.eps(placed);
        cx.outcome(&format!("eps-{}", o.class()));
        cx.transitions += enc.events.len() as u64;
        let (got, spans) = match o {
            Out::Ok(x) => x,
            o => { cx.violate(&format!("eps-{}", o.class()), json!({"value": vdesc(i, &want), "observed": o.describe()})); continue; }
        };
        if !c03 {
            if got != want {
                cx.violate("eps-wrong-value", json!({"value": vdesc(i, &want), "expected": format!("{:?}", want), "observed": format!("{:?}", got)}));
            }
            match t.full(&bytes) {
                Out::Ok((f, _)) if f == got => {}
                o => cx.violate("eps-disagrees-with-full", json!({"value": vdesc(i, &want), "eps": format!("{:?}", got), "full": o.describe()})),
            }
            if i < 1 { cx.sample(json!({"type": cx.type_id, "value": format!("{:?}", want), "eps": format!("{:?}", got)})); }
            for (kk, k) in LARGE_SCALES.into_iter().enumerate() {
                if Some(i) == growing.get(kk).copied().flatten() {
                    if (k & !crate::dom::REPEAT) > 30_000 && cx.tier == Tier::Quick && scaled_len(t, i, k) > LARGE_CAP { cx.count("large_values_over_cap_left_to_thorough", 1); continue; }
                    cx.evals += 1;
                    if let Out::Ok((lb, sval)) = t.ser_scaled(i, k) {
                        let mut big = Arena::new(lb.len() + 4096);
                        let placed = big.place(0, &lb);
                        match t.eps(placed) {
                            Out::Ok((g, _)) if g == sval => cx.outcome("large-eps-ok"),
                            Out::Ok(_) => cx.violate("large-value-eps-wrong-value", json!({"value_index": i, "scale": k, "len": lb.len()})),
                            o => cx.violate(&format!("large-value-eps-{}", o.class()), json!({"value_index": i, "scale": k, "observed": o.describe()})),
                        }
                    }
                }
            }
            continue;
        }
        // C03: spans against the model's borrowed blocks
        let blocks: Vec<&Ev> = enc.events.iter().filter(|e| matches!(e, Ev::Block { borrowed: true, .. })).collect();
        if blocks.len() != spans.len() {
            cx.violate("span-count", json!({"value": vdesc(i, &want), "expected_blocks": blocks.len(), "observed_spans": spans.len()}));
            continue;
        }
        for (b, s) in blocks.iter().zip(&spans) {
            if let Ev::Block { off, len, elem_size, count, kind, .. } = b {
                cx.transitions += 1;
                let mut bad = vec![];
                if s.kind != *kind { bad.push("kind"); }
                if s.count != *count { bad.push("count"); }
                if s.bytes != *len { bad.push("length"); }
                if s.elem_size != *elem_size { bad.push("elem-size"); }
                if s.addr == 0 { bad.push("null"); }
                if s.elem_align > 0 && s.addr % s.elem_align != 0 { bad.push("misaligned"); }
                // also for zero-byte spans (empty slices, zero-sized items): the reference is
                // positioned at the stream offset of the (empty) block
                if s.addr != base + off { bad.push(if *len > 0 { "address" } else { "address-of-empty-span" }); }
                if *len > 0 && (s.addr < base || s.addr.saturating_add(s.bytes) > base + bytes.len()) { bad.push("out-of-bounds"); }
                if !bad.is_empty() {
                    cx.violate(&format!("span-{}", bad.join("+")), json!({"value": vdesc(i, &want), "model_block": format!("{:?}", b), "span": format!("{:?}", s), "base": base}));
                }
            }
        }
        if i < 1 && !spans.is_empty() { cx.sample(json!({"type": cx.type_id, "value": format!("{:?}", want), "spans": spans.iter().map(|s| json!({"off": s.addr.wrapping_sub(base), "bytes": s.bytes, "count": s.count})).collect::<Vec<_>>() })); }
        // the same at a few misplaced bases: whenever the reader accepts the placement, every
        // borrowed part must still be exactly where the writer put it, and aligned
        if i < cx.tier.pick(2, 6) && !blocks.is_empty() {
            for r in [1usize, 2, 4, 8, 16, 32, 64] {
                cx.evals += 1;
                let base_r = arena.base() + r;
                let placed = arena.place(r, &bytes);
                if let Out::Ok((_, sp)) = t.eps(placed) {
                    for (b, s) in blocks.iter().zip(&sp) {
                        if let Ev::Block { off, len, .. } = b {
                            let mut bad = vec![];
                            if s.elem_align > 0 && s.addr % s.elem_align != 0 { bad.push("misaligned"); }
                            if *len > 0 && s.addr != base_r + off { bad.push("address"); }
                            if s.bytes != *len { bad.push("length"); }
                            if !bad.is_empty() { cx.violate(&format!("span-at-misplaced-base-{}", bad.join("+")), json!({"value": vdesc(i, &want), "residue": r, "model_block": format!("{:?}", b), "span": format!("{:?}", s)})); }
                        }
                    }
                }
            }
        }
        // allocation independence under scaling of the borrowed payload
        if nblocks > 0 && i < cx.tier.pick(6, 40) {
            let mut seen: Option<AllocSnap> = None;
            for k in [1usize, 8, 64] {
                let (sb, sval) = match t.ser_scaled(i, k) { Out::Ok(x) => x, _ => break };
                let mut big = Arena::new(sb.len() + 4096);
                let placed = big.place(0, &sb);
                cx.evals += 1;
                match t.eps_alloc(placed) {
                    Out::Ok((d, val)) => {
                        if val != sval { cx.violate("scaled-eps-wrong-value", json!({"value": vdesc(i, &want), "scale": k})); }
                        let d = AllocSnap { frees: 0, ..d };
                        match seen {
                            None => seen = Some(d),
                            Some(s0) if s0 == d => {}
                            Some(s0) => { cx.violate("alloc-depends-on-borrowed-length", json!({"value": vdesc(i, &want), "scale": k, "alloc_k1": format!("{:?}", s0), "alloc_k": format!("{:?}", d)})); break; }
                        }
                    }
                    _ => break, // failures are C02's business
                }
            }
        }
    }
}

// ------------------------------------------------------------------ C06

/// Bytes == reference encoder, header hash words == model recipe, golden data of the pinned build.
pub fn c06(t: &dyn TypeOps, cx: &mut Cx) {
    let ty = t.ty();
    let n = build(t, cx);
    let (rth, rah) = t.hashes();
    cx.evals += 1;
    if rth != type_hash(&ty) {
        cx.violate("type-hash-differs-from-recipe", json!({"real": format!("{:#x}", rth), "model": format!("{:#x}", type_hash(&ty)), "ty": ty.show()}));
    }
    if rah != align_hash(&ty) {
        cx.violate("align-hash-differs-from-recipe", json!({"real": format!("{:#x}", rah), "model": format!("{:#x}", align_hash(&ty)), "ty": ty.show()}));
    }
    for i in 0..n {
        let want = t.val(i);
        let enc = encode(&ty, &want, t.type_name());
        cx.evals += 1;
        cx.case(case_hash(cx, &want), true);
        let (bytes, _) = match t.ser(i) {
            Out::Ok(b) => b,
            o => { cx.outcome(&format!("ser-{}", o.class())); cx.violate(&format!("ser-{}", o.class()), json!({"value": vdesc(i, &want), "observed": o.describe()})); continue; }
        };
        cx.transitions += enc.events.len() as u64;
        if masked_eq(&bytes, &enc.bytes, &enc.mask) {
            cx.outcome("bytes-equal");
        } else {
            cx.outcome("bytes-differ");
            let first = bytes.iter().zip(&enc.bytes).zip(&enc.mask).position(|((a, b), m)| !*m && a != b).unwrap_or(bytes.len().min(enc.bytes.len()));
            let region = if first < 8 { "magic" } else if first < 12 { "version" } else if first < 13 { "usize-size" } else if first < 21 { "type-hash" } else if first < 29 { "align-hash" } else if first < enc.header_len { "type-name" } else { "body" };
            cx.violate(&format!("bytes-differ-in-{}", region), json!({"value": vdesc(i, &want), "first_diff": first, "impl_len": bytes.len(), "model_len": enc.bytes.len(),
                "impl": hex(&bytes[enc.header_len.min(bytes.len())..]), "model": hex(&enc.bytes[enc.header_len..])}));
        }
        if i < 1 { cx.sample(json!({"type": cx.type_id, "value": format!("{:?}", want), "len": bytes.len(), "events": enc.events.len()})); }
    }
    // a large value (payload past 64 KiB): the reference encoder's bytes are what both
    // deserializers must read back (what an earlier build wrote stays readable)
    if let Some(i) = first_scalable(t, n) {
        if let Out::Ok((lb, sval)) = t.ser_scaled(i, 30_000) {
            cx.evals += 1;
            let enc = encode(&ty, &sval, t.type_name());
            if !masked_eq(&lb, &enc.bytes, &enc.mask) { cx.violate("large-value-bytes-differ-from-model", json!({"value_index": i, "len": lb.len(), "model_len": enc.bytes.len()})); }
            let mut big = Arena::new(enc.bytes.len() + 4096);
            match t.full(&enc.bytes) {
                Out::Ok((x, _)) if x == sval => {}
                o => cx.violate(&format!("large-reference-stream-full-{}", if matches!(o, Out::Ok(_)) { "wrong-value".into() } else { o.class() }), json!({"value_index": i, "len": enc.bytes.len(), "observed": o.describe()})),
            }
            let placed = big.place(0, &enc.bytes);
            match t.eps(placed) {
                Out::Ok((x, _)) if x == sval => {}
                o => cx.violate(&format!("large-reference-stream-eps-{}", if matches!(o, Out::Ok(_)) { "wrong-value".into() } else { o.class() }), json!({"value_index": i, "len": enc.bytes.len(), "observed": o.describe()})),
            }
        }
    }
    c06_golden(t, cx, n, rth, rah);
}

/// Golden data of the pinned build: hashes and stored streams must keep their meaning.
fn c06_golden(t: &dyn TypeOps, cx: &mut Cx, n: usize, rth: u64, rah: u64) {
    let g = crate::corpus::golden();
    let ty = t.ty();
    match g.hashes.get(&cx.type_id) {
        None => cx.count("types_without_golden_hash", 1),
        Some((th, ah)) => {
            cx.evals += 1;
            cx.count("golden_hashes_compared", 1);
            if *th != rth { cx.violate("type-hash-differs-from-pinned-build", json!({"pinned": format!("{:#x}", th), "current": format!("{:#x}", rth)})); }
            if *ah != rah { cx.violate("align-hash-differs-from-pinned-build", json!({"pinned": format!("{:#x}", ah), "current": format!("{:#x}", rah)})); }
        }
    }
    let Some(files) = g.corpus.get(&cx.type_id) else { cx.count("types_without_corpus", 1); return; };
    if ty.has_f14_range() { cx.count("corpus_types_skipped_pinned_writer_defect_F14", 1); return; }
    let mut arena = Arena::new(1 << 16);
    let vals: Vec<String> = (0..n).map(|i| format!("{:?}", t.val(i))).collect();
    for (vs, bytes) in files {
        let Some(i) = vals.iter().position(|v| v == vs) else { cx.count("corpus_value_not_in_domain", 1); continue; };
        cx.evals += 1;
        cx.count("corpus_files_checked", 1);
        let want = t.val(i);
        if bytes.len() + 64 > arena.cap() { arena = Arena::new(bytes.len() * 2); }
        match t.full(bytes) {
            Out::Ok((x, _)) if x == want => {}
            o => cx.violate(&format!("corpus-full-{}", if matches!(o, Out::Ok(_)) { "wrong-value".into() } else { o.class() }), json!({"value": vdesc(i, &want), "observed": o.describe(), "file": hex(bytes)})),
        }
        let placed = arena.place(0, bytes);
        match t.eps(placed) {
            Out::Ok((x, _)) if x == want => {}
            o => cx.violate(&format!("corpus-eps-{}", if matches!(o, Out::Ok(_)) { "wrong-value".into() } else { o.class() }), json!({"value": vdesc(i, &want), "observed": o.describe(), "file": hex(bytes)})),
        }
        let enc = encode(&ty, &want, t.type_name());
        match t.ser(i) {
            Out::Ok((b, _)) if b.len() == bytes.len() && (b == *bytes || masked_eq(&b, bytes, &enc.mask)) => {}
            Out::Ok((b, _)) => cx.violate("corpus-reserialization-differs", json!({"value": vdesc(i, &want), "pinned": hex(bytes), "current": hex(&b)})),
            o => cx.violate(&format!("corpus-ser-{}", o.class()), json!({"value": vdesc(i, &want), "observed": o.describe()})),
        }
    }
}

/// Emit golden lines (run against the pinned tree only).
pub fn goldgen(t: &dyn TypeOps, cx: &mut Cx) {
    let (th, ah) = t.hashes();
    cx.notes.push(format!("HASH {} {:016x} {:016x}", cx.type_id, th, ah));
    let mut seen = std::collections::HashSet::new();
    for cap in [cap_for(Tier::Quick), cap_for(Tier::Thorough)] {
        let (n, _, _) = t.build_domain(cap);
        let pick: Vec<usize> = if n <= 3 { (0..n).collect() } else { vec![0, n / 2, n - 1] };
        for i in pick {
            cx.evals += 1;
            if let Out::Ok((b, _)) = t.ser(i) {
                let line = format!("CORPUS {}\t{}\t{:?}", cx.type_id, hex(&b), t.val(i));
                if seen.insert(line.clone()) { cx.notes.push(line); }
            }
        }
    }
    cx.case(0, true);
    cx.case(1, true);
}

// ------------------------------------------------------------------ C07

/// Padding and byte counts, with every start-offset residue through the inner API.
/// The padding formula itself, over all power-of-two units and offsets at every boundary of the
/// `usize` range (run once, while the unit type is being explored).
fn c07_formula(cx: &mut Cx) {
    let mut offs: Vec<usize> = (0..=130).collect();
    for j in 0..usize::BITS { for d in [0usize, 1, 2, 3] { offs.push((1usize << j).wrapping_add(d)); offs.push((1usize << j).wrapping_sub(d)); } }
    for d in 0..=130usize { offs.push(usize::MAX - d); }
    offs.sort(); offs.dedup();
    let mut bad = 0u64;
    for k in 0..usize::BITS {
        let unit = 1usize << k;
        for &o in &offs {
            cx.evals += 1;
            let want = (unit - o % unit) % unit;
            let got = epserde::pad_align_to(o, unit);
            if got != want {
                bad += 1;
                if bad <= 8 { cx.violate("pad-align-to-formula", json!({"offset": format!("{:#x}", o), "unit": format!("{:#x}", unit), "expected": want, "observed": got})); }
            }
        }
    }
    cx.transitions += offs.len() as u64 * usize::BITS as u64;
    cx.count("padding_formula_pairs", offs.len() as u64 * usize::BITS as u64);
    cx.outcome(if bad == 0 { "padding-formula-ok" } else { "padding-formula-wrong" });
}

pub fn c07(t: &dyn TypeOps, cx: &mut Cx) {
    if cx.type_id == "()" { c07_formula(cx); }
    let ty = t.ty();
    let n = build(t, cx);
    let nres = cx.tier.pick(64usize, 128);
    // byte counts of large values: payloads past 64 KiB, exact multiples of 2^16 items, more
    // than 2^16 items (no value comparison here: that is C01 / C02)
    for k in LARGE_SCALES {
        if let Some(i) = first_growing(t, n, k) {
            if (k & !crate::dom::REPEAT) > 30_000 && cx.tier == Tier::Quick && scaled_len(t, i, k) > LARGE_CAP { cx.count("large_values_over_cap_left_to_thorough", 1); continue; }
            cx.evals += 1;
            if let Out::Ok((bytes, _)) = t.ser_scaled(i, k) {
                let mut ext = bytes.clone();
                ext.extend_from_slice(&[0x5A; 40]);
                match t.full(&ext) {
                    Out::Ok((_, pos)) if pos == bytes.len() => cx.outcome("large-full-consumed-exact"),
                    Out::Ok((_, pos)) => cx.violate("large-value-full-consumes-wrong-count", json!({"value_index": i, "scale": k & !crate::dom::REPEAT, "consumed": pos, "written": bytes.len()})),
                    o => cx.violate(&format!("large-value-full-{}", o.class()), json!({"value_index": i, "scale": k & !crate::dom::REPEAT, "observed": o.describe()})),
                }
                let mut arena = Arena::new(ext.len() + 4096);
                let placed = arena.place(0, &ext);
                match t.eps_consumed(placed) {
                    Out::Ok(pos) if pos == bytes.len() => cx.outcome("large-eps-consumed-exact"),
                    Out::Ok(pos) => cx.violate("large-value-eps-consumes-wrong-count", json!({"value_index": i, "scale": k & !crate::dom::REPEAT, "consumed": pos, "written": bytes.len()})),
                    o => cx.violate(&format!("large-value-eps-{}", o.class()), json!({"value_index": i, "scale": k & !crate::dom::REPEAT, "observed": o.describe()})),
                }
            }
        }
    }
    for i in 0..n {
        let want = t.val(i);
        cx.evals += 1;
        cx.case(case_hash(cx, &want), true);
        let enc = encode(&ty, &want, t.type_name());
        match t.ser(i) {
            Out::Ok((bytes, cnt)) => {
                if cnt != bytes.len() || cnt != enc.bytes.len() {
                    cx.violate("serialize-count-mismatch", json!({"value": vdesc(i, &want), "returned": cnt, "sink_received": bytes.len(), "model": enc.bytes.len()}));
                }
                let mut ext = bytes.clone();
                ext.extend_from_slice(&[0x5A; 40]);
                match t.full(&ext) {
                    Out::Ok((_, pos)) if pos == bytes.len() => cx.outcome("full-consumed-exact"),
                    Out::Ok((_, pos)) => cx.violate("full-consumes-wrong-count", json!({"value": vdesc(i, &want), "consumed": pos, "written": bytes.len()})),
                    o => cx.violate(&format!("full-{}", o.class()), json!({"value": vdesc(i, &want), "observed": o.describe()})),
                }
                let mut arena = Arena::new(ext.len() + 4096);
                let placed = arena.place(0, &ext);
                match t.eps_consumed(placed) {
                    Out::Ok(pos) if pos == bytes.len() => cx.outcome("eps-consumed-exact"),
                    Out::Ok(pos) => cx.violate("eps-consumes-wrong-count", json!({"value": vdesc(i, &want), "consumed": pos, "written": bytes.len()})),
                    o => cx.violate(&format!("eps-{}", o.class()), json!({"value": vdesc(i, &want), "observed": o.describe()})),
                }
            }
            o => { cx.violate(&format!("ser-{}", o.class()), json!({"value": vdesc(i, &want), "observed": o.describe()})); continue; }
        }
        if i >= cx.tier.pick(3, 12) { continue; }
        // the schema-recording writer pads exactly like the plain one (same count, same bytes)
        if let Out::Ok(so) = t.ser_schema(i) {
            cx.evals += 1;
            if so.bytes.len() != enc.bytes.len() || !masked_eq(&so.bytes, &enc.bytes, &enc.mask) {
                cx.violate("schema-writer-stream-differs-in-count-or-padding", json!({"value": vdesc(i, &want), "schema_len": so.bytes.len(), "model_len": enc.bytes.len()}));
            }
        }
        // the returned count is the number of bytes the writer RECEIVED, also when the writer
        // accepts a request only in part (a short write at any one point, then the rest)
        {
            let mut probe = ScriptWriter::new(Script::default());
            let _ = t.ser_script(i, &mut probe);
            let points: Vec<usize> = probe.log.iter().filter(|(_, fl, len)| !*fl && *len > 1).map(|(p, _, _)| *p).collect();
            for p in points.into_iter().take(cx.tier.pick(48, 400)) {
                for alt in [0u8, 1] {
                    cx.evals += 1;
                    let mut w = ScriptWriter::new(Script { dev: vec![(p, alt)] });
                    match t.ser_script(i, &mut w) {
                        Out::Ok(cnt) if cnt == w.accepted.len() && cnt == enc.bytes.len() => cx.outcome("short-write-count-exact"),
                        Out::Ok(cnt) => cx.violate("serialize-count-differs-from-bytes-received-after-short-write", json!({"value": vdesc(i, &want), "point": p, "returned": cnt, "sink_received": w.accepted.len(), "fault_free_len": enc.bytes.len()})),
                        o => cx.violate(&format!("short-write-ser-{}", o.class()), json!({"value": vdesc(i, &want), "point": p, "observed": o.describe()})),
                    }
                }
            }
        }
        for r in 0..nres {
            cx.evals += 1;
            let s = match t.inner_ser(i, r) {
                Out::Ok(s) => s,
                o => { cx.violate(&format!("inner-ser-{}", o.class()), json!({"value": vdesc(i, &want), "start_offset": r, "observed": o.describe()})); break; }
            };
            let buf = &s.bytes;
            if s.endpos != buf.len() { cx.violate("writer-pos-mismatch", json!({"value": vdesc(i, &want), "start_offset": r, "pos": s.endpos, "len": buf.len()})); }
            let mut me = Encoded::default();
            me.bytes = vec![0u8; r];
            me.mask = vec![false; r];
            encode_value(&ty, &want, &mut me, true);
            cx.transitions += (s.aligns.len() + s.blocks.len()) as u64;
            if !masked_eq(buf, &me.bytes, &me.mask) {
                cx.violate("inner-bytes-differ-from-model", json!({"value": vdesc(i, &want), "start_offset": r, "impl": hex(&buf[r..]), "model": hex(&me.bytes[r..])}));
            }
            for (before, unit, after) in &s.aligns {
                let mut bad = vec![];
                if *unit == 0 || !unit.is_power_of_two() { bad.push("unit-not-power-of-two"); }
                else {
                    if after % unit != 0 { bad.push("block-offset-not-multiple-of-unit"); }
                    if after - before >= *unit { bad.push("gap-not-minimal"); }
                }
                if buf[*before..*after].iter().any(|b| *b != 0) { bad.push("gap-not-zero"); }
                if !bad.is_empty() { cx.violate(&format!("pad-{}", bad.join("+")), json!({"value": vdesc(i, &want), "start_offset": r, "before": before, "after": after, "unit": unit})); }
            }
            for (pos, _len, unit, al, _sz) in &s.blocks {
                let mut bad = vec![];
                if *unit == 0 || !unit.is_power_of_two() { bad.push("unit-not-power-of-two"); }
                else {
                    if unit < al { bad.push("unit-below-native-align"); }
                    if pos % unit != 0 { bad.push("block-offset-not-multiple-of-unit"); }
                }
                if !bad.is_empty() { cx.violate(&format!("block-{}", bad.join("+")), json!({"value": vdesc(i, &want), "start_offset": r, "pos": pos, "unit": unit, "align_of": al})); }
            }
            let mblocks: Vec<&Ev> = me.events.iter().filter(|e| matches!(e, Ev::Block { .. })).collect();
            if mblocks.len() == s.blocks.len() {
                for (mb, (pos, len, unit, _, _)) in mblocks.iter().zip(&s.blocks) {
                    if let Ev::Block { off, len: ml, .. } = mb {
                        if off != pos || ml != len { cx.violate("block-position-differs-from-model", json!({"value": vdesc(i, &want), "start_offset": r, "impl": [pos, len], "model": [off, ml], "unit": unit})); }
                    }
                }
            } else {
                cx.violate("block-count-differs-from-model", json!({"value": vdesc(i, &want), "start_offset": r, "impl": s.blocks.len(), "model": mblocks.len()}));
            }
            // deserializers consume exactly, at this offset
            let f = t.inner_full(buf, r);
            let mut arena = Arena::new(buf.len() + 4096);
            let placed = arena.place(0, buf);
            let e = t.inner_eps(placed, r);
            match (&f, &e) {
                (Out::Ok((_, fp)), Out::Ok((_, ep))) if *fp == buf.len() && *ep == buf.len() => cx.outcome("inner-consumed-exact"),
                (Out::Ok((_, fp)), Out::Ok((_, ep))) => cx.violate("inner-consumes-wrong-count", json!({"value": vdesc(i, &want), "start_offset": r, "full": fp, "eps": ep, "written": buf.len()})),
                (Out::Ok(_), e) => cx.violate(&format!("inner-eps-{}", e.class()), json!({"value": vdesc(i, &want), "start_offset": r, "observed": e.describe()})),
                (f, _) => cx.violate(&format!("inner-full-{}", f.class()), json!({"value": vdesc(i, &want), "start_offset": r, "observed": f.describe()})),
            }
        }
        if i < 1 { cx.sample(json!({"type": cx.type_id, "value": format!("{:?}", want), "residues": nres})); }
    }
}
