pub fn dummy() {}
