//! C08, feature configuration `std,derive` (no mmap): store / load_full / load_mem agree with
//! ε-copy of the file bytes; the heap region is 64-aligned, rounded up to 64 and zero-tailed.
use epserde::prelude::*;
use serde_json::json;

#[derive(Epserde, Clone, Debug, PartialEq)]
struct G<A, B> { id: u32, a: A, n: u8, b: B }
#[derive(Epserde, Clone, Copy, Debug, PartialEq)]
#[repr(C)]
#[zero_copy]
struct P { a: u8, b: u64 }
#[derive(Epserde, Clone, Debug, PartialEq)]
enum E { U, T(u16, String), S { v: Vec<u32> } }

fn main() {
    let dir = format!("/dev/shm/verif-nommap-{}", std::process::id());
    std::fs::create_dir_all(&dir).unwrap();
    let mut cases = 0u64;
    let mut viol: Vec<serde_json::Value> = vec![];
    let mut residues = std::collections::BTreeSet::new();
    macro_rules! case {
        ($t:ty, $v:expr, $cmp:expr) => {{
            let v: $t = $v;
            let path = format!("{}/f{}.bin", dir, cases);
            cases += 1;
            let mut mem: Vec<u8> = vec![];
            v.serialize(&mut mem).unwrap();
            v.store(&path).unwrap();
            let file = std::fs::read(&path).unwrap();
            residues.insert(file.len() % 64);
            if file != mem { viol.push(json!({"class": "nommap-stored-file-differs", "type": stringify!($t)})); }
            let full = <$t>::load_full(&path).unwrap();
            if full != v { viol.push(json!({"class": "nommap-load_full-wrong-value", "type": stringify!($t)})); }
            let case = <$t>::load_mem(&path).unwrap();
            let (kind, base, len) = case.__verif_backend();
            let region = unsafe { std::slice::from_raw_parts(base, len) };
            let mut bad = vec![];
            if kind != 1 { bad.push("backend-kind"); }
            if base as usize % 64 != 0 { bad.push("region-not-aligned-to-64"); }
            if len != file.len().div_ceil(64) * 64 { bad.push("length-not-rounded-to-64"); }
            if len >= file.len() && region[..file.len()] != file[..] { bad.push("content-differs"); }
            if len >= file.len() && region[file.len()..].iter().any(|b| *b != 0) { bad.push("tail-not-zero"); }
            let f: &dyn Fn(&DeserType<'static, $t>, &$t) -> bool = &$cmp;
            if !f(&*case, &v) { bad.push("value-differs"); }
            for b in bad { viol.push(json!({"class": format!("nommap-load_mem-{}", b), "type": stringify!($t), "file_len": file.len()})); }
        }};
    }
    for n in 0..70usize {
        let s: String = "x".repeat(n);
        case!(Vec<u64>, (0..n as u64).collect(), |e, v| **e == v[..]);
        case!(String, s.clone(), |e, v| *e == v.as_str());
        case!(G<Vec<u16>, String>, G { id: 1, a: vec![n as u16; n % 5], n: 9, b: s.clone() }, |e, v| e.id == v.id && e.a == &v.a[..] && e.n == v.n && e.b == v.b.as_str());
        case!(Vec<P>, vec![P { a: 1, b: n as u64 }; n % 4], |e, v| **e == v[..]);
        case!(E, if n % 3 == 0 { E::U } else if n % 3 == 1 { E::T(n as u16, s.clone()) } else { E::S { v: vec![n as u32; n % 7] } }, |e, v| e == v);
        case!(Option<Vec<String>>, if n % 2 == 0 { None } else { Some(vec![s.clone(); n % 3]) }, |e, v| match (e, v) { (None, None) => true, (Some(a), Some(b)) => a.len() == b.len() && a.iter().zip(b).all(|(x, y)| *x == y.as_str()), _ => false });
    }
    let _ = std::fs::remove_dir_all(&dir);
    println!("{}", json!({"cases": cases, "file_len_residues_mod64_covered": residues.len(), "loaders": ["load_full", "load_mem"], "violations": viol}));
    std::process::exit(if viol.is_empty() { 0 } else { 1 });
}
