//! C08 (schedules): a loaded MemCase shared with / sent to other threads stays valid under
//! every interleaving of the ownership operations. loom enumerates all schedules of the
//! Arc / channel / join operations up to the preemption bound, on the REAL loaders (real
//! files, real mmap). Before every read the backing region (hook) is checked to be mapped
//! and unchanged, so that a premature release is a clean verdict.

use epserde::prelude::*;
use loom::sync::Arc;
use std::sync::atomic::{AtomicUsize, Ordering};

#[derive(Epserde, Clone, Debug, PartialEq)]
struct G<A> { id: u32, data: A }

fn mapped(addr: usize) -> bool {
    let maps = std::fs::read_to_string("/proc/self/maps").unwrap_or_default();
    maps.lines().any(|l| {
        let r = l.split_whitespace().next().unwrap_or("");
        match r.split_once('-') { Some((a, b)) => { let (a, b) = (usize::from_str_radix(a, 16).unwrap_or(0), usize::from_str_radix(b, 16).unwrap_or(0)); addr >= a && addr < b } None => false }
    })
}

fn scratch_maps(dir: &str) -> usize {
    let maps = std::fs::read_to_string("/proc/self/maps").unwrap_or_default();
    maps.lines().filter(|l| { let mut it = l.split_whitespace(); let _ = it.next(); let perms = it.next().unwrap_or(""); let _ = it.next(); let _ = it.next(); let inode = it.next().unwrap_or("0"); let path = it.next().unwrap_or(""); path.starts_with(dir) || (path.is_empty() && inode == "0" && perms == "r--p") }).count()
}

type Case = MemCase<G<&'static [u64]>>;

fn load(loader: usize, path: &str) -> Case {
    match loader {
        0 => <G<Vec<u64>>>::load_mem(path).unwrap(),
        1 => <G<Vec<u64>>>::load_mmap(path, Flags::empty()).unwrap(),
        _ => <G<Vec<u64>>>::mmap(path, Flags::RANDOM_ACCESS).unwrap(),
    }
}

fn read(c: &Case, expect: u64) {
    let (kind, base, len) = c.__verif_backend();
    assert!(kind != 0);
    assert!(mapped(base as usize) && mapped(base as usize + len - 1), "backing region released while the case is still in use");
    let s: u64 = c.data.iter().copied().fold(c.id as u64, |a, b| a.wrapping_mul(31).wrapping_add(b));
    assert_eq!(s, expect, "contents read through the case changed");
    let a = c.data.as_ptr() as usize;
    assert!(a >= base as usize && a + c.data.len() * 8 <= base as usize + len, "borrowed slice outside the region");
}

fn main() {
    let tier = std::env::args().nth(1).unwrap_or_else(|| "quick".into());
    let bound = if tier == "thorough" { 3 } else { 2 };
    let dir = format!("/dev/shm/verif-loom-{}", std::process::id());
    std::fs::create_dir_all(&dir).unwrap();
    let path = format!("{}/case.bin", dir);
    let v = G { id: 7, data: (0..300u64).map(|i| i * i + 1).collect::<Vec<u64>>() };
    v.store(&path).unwrap();
    let expect = v.data.iter().copied().fold(v.id as u64, |a, b| a.wrapping_mul(31).wrapping_add(b));
    let mut report = vec![];
    let mut total = 0usize;
    let base_maps = scratch_maps(&dir);
    for loader in 0..3usize {
        for shape in ["arc-2-readers", "channel-handoff", "arc-main-drops-first"] {
            let n = std::sync::Arc::new(AtomicUsize::new(0));
            let n2 = n.clone();
            let p = path.clone();
            let d = dir.clone();
            let mut b = loom::model::Builder::new();
            b.preemption_bound = Some(bound);
            b.check(move || {
                n2.fetch_add(1, Ordering::Relaxed);
                let case = Box::new(load(loader, &p));
                match shape {
                    "arc-2-readers" => {
                        let a = Arc::new(case);
                        let hs: Vec<_> = (0..2).map(|_| { let a = a.clone(); loom::thread::spawn(move || { read(&a, expect); drop(a); }) }).collect();
                        read(&a, expect);
                        drop(a);
                        for h in hs { h.join().unwrap(); }
                    }
                    "arc-main-drops-first" => {
                        let a = Arc::new(case);
                        let a1 = a.clone();
                        let a2 = a.clone();
                        drop(a);
                        let h1 = loom::thread::spawn(move || { read(&a1, expect); });
                        let h2 = loom::thread::spawn(move || { read(&a2, expect); read(&a2, expect); });
                        h1.join().unwrap();
                        h2.join().unwrap();
                    }
                    _ => {
                        let (tx, rx) = loom::sync::mpsc::channel::<Box<Case>>();
                        let (tx2, rx2) = loom::sync::mpsc::channel::<Box<Case>>();
                        let h = loom::thread::spawn(move || { let c = rx.recv().unwrap(); read(&c, expect); tx2.send(c).unwrap(); });
                        read(&case, expect);
                        tx.send(case).unwrap();
                        let c = rx2.recv().unwrap();
                        read(&c, expect);
                        h.join().unwrap();
                        drop(c);
                    }
                }
                assert_eq!(scratch_maps(&d), base_maps, "mapping not released exactly once after the last owner dropped the case");
            });
            let k = n.load(Ordering::Relaxed);
            total += k;
            let lname = ["load_mem", "load_mmap", "mmap"][loader];
            report.push(serde_json::json!({"loader": lname, "shape": shape, "schedules": k}));
        }
    }
    let _ = std::fs::remove_dir_all(&dir);
    println!("{}", serde_json::json!({"preemption_bound": bound, "schedules": total, "runs": report}));
}
