#!/usr/bin/env python3
"""gen/nda.py <Cxx>: the quick-tier "no debug assertions" pass.

The quick runner is a debug build: `debug_assert!`, overflow checks and everything under
`cfg(debug_assertions)` are ON there. Several paths of the library behave differently without
them, and the thorough tier repeats the whole sweep in the release-like profile `rel`. This
driver gives the quick tier a slice of that: a sample of the quick universe (every 24th type plus
every type of a few families that are known to differ: flagged ranges, generic zero-copy items,
16-byte units, over-aligned items) is compiled with rustc against the library built in profile
`rel` and run through the same check algorithm (`vcore::run_check`, i.e. exactly the code of the
runner). The compiled programs are cached under /verif/target/nda/<key>, the key being a hash of
the repository sources and of the harness core, so that the six checks that use this pass pay for
one compilation.

Output: VIOLATION lines (replay files evidence/replay/<Cxx>-N<k>.json), counters merged into
evidence/<Cxx>.json; exit 0 / 1, 2 on machinery problems."""
import concurrent.futures as cf
import glob
import hashlib
import json
import os
import re
import subprocess
import sys
import time

sys.path.insert(0, os.path.dirname(os.path.abspath(__file__)))
import probes as P
import universe as U

ROOT = P.ROOT
CACHE = os.path.join(ROOT, "target", "nda")
BATCH = 11

HEAD = """#![allow(dead_code, unused_imports, unused_variables, non_camel_case_types, non_snake_case)]
use core::marker::PhantomData;
use core::num::*;
use core::ops::{Bound, ControlFlow, Range, RangeFrom, RangeFull, RangeInclusive, RangeTo, RangeToInclusive};
use epserde::prelude::*;
use udefs::*;
#[global_allocator]
static ALLOC: vcore::env::Tracking = vcore::env::Tracking;
"""

MAIN = """
fn main() {
    use std::io::Write;
    vcore::env::install_panic_hook();
    vcore::env::set_poison(true);
    let check = std::env::var("VERIF_NDA_CHECK").expect("VERIF_NDA_CHECK");
    let mut v: Vec<vcore::Entry> = Vec::new();
%s
    let mut cx = vcore::cx::Cx::new(&check, vcore::cx::Tier::Quick);
    let out = std::io::stdout();
    for e in &v {
        { let mut o = out.lock(); writeln!(o, "BEGIN {}", e.id).unwrap(); o.flush().unwrap(); }
        cx.type_id = e.id.to_string();
        if let Err(p) = vcore::env::guarded(|| vcore::run_check(e.ops.as_ref(), &check, &mut cx)) { cx.machinery_error(format!("checker panicked: {}", p)); }
        let mut o = out.lock();
        writeln!(o, "{}", cx.flush_type()).unwrap();
        o.flush().unwrap();
    }
    vcore::checks3::cleanup_scratch();
}
"""


def sample():
    q = U.universe("quick")
    pick = [x for i, x in enumerate(q) if i % 24 == 0]
    fam = {"RangeInclusive": 14, "ZG<": 8, "u128": 8, "P64": 5, "Z16": 5, "GV<": 5, "GPR<": 4, "ED": 4, "Bound<": 5, "ControlFlow<": 5, "bool": 6, "NT16": 3, "[": 6}
    for key, n in fam.items():
        pick += [x for x in q if key in x.expr][:n]
    seen, out = set(), []
    for x in pick:
        if x.expr not in seen:
            seen.add(x.expr)
            out.append(x)
    return out


def tree_key():
    h = hashlib.sha256()
    for pat in ["/repo/epserde/src/**/*.rs", "/repo/epserde-derive/src/*.rs", "/repo/epserde/Cargo.toml", os.path.join(ROOT, "harness/vcore/src/*.rs"), os.path.join(ROOT, "harness/udefs/src/*.rs"), os.path.join(ROOT, "gen/nda.py"), os.path.join(ROOT, "harness/Cargo.toml")]:
        for f in sorted(glob.glob(pat, recursive=True)):
            h.update(f.encode())
            h.update(open(f, "rb").read())
    return h.hexdigest()[:20]


def main():
    check = sys.argv[1]
    t0 = time.time()
    ext = P.build_libs(profile="rel")
    if ext is None:
        # the runner build already classified build failures; nothing more to say here
        sys.stderr.write("nda: library build failed\n")
        sys.exit(2)
    types = sample()
    key = tree_key()
    d = os.path.join(CACHE, key)
    if not os.path.isdir(d):
        # keep a single generation
        subprocess.run(["rm", "-rf", CACHE])
        os.makedirs(d)
    batches = [types[i:i + BATCH] for i in range(0, len(types), BATCH)]

    def build(k):
        out = os.path.join(d, f"b{k:02d}.bin")
        if os.path.exists(out):
            return out, ""
        src = os.path.join(d, f"b{k:02d}.rs")
        regs = "".join(f"    v.push(vcore::entry::<{x.expr}>({json.dumps(x.expr)}));\n" for x in batches[k])
        with open(src, "w") as f:
            f.write(HEAD + MAIN % regs)
        p = subprocess.run(P.rustc_cmd(ext, src, out + ".tmp", ("epserde", "vcore", "udefs", "serde_json"), release=True), capture_output=True, text=True, env=P.ENV)
        if p.returncode != 0:
            return None, p.stderr[-3000:]
        os.replace(out + ".tmp", out)
        return out, ""

    with cf.ThreadPoolExecutor(max_workers=16) as ex:
        bins = list(ex.map(build, range(len(batches))))
    for k, (b, err) in enumerate(bins):
        if b is None:
            # the same sources compile in the debug profile (the runner was built before this pass)
            sys.stderr.write(f"nda: batch {k} does not compile in the release-like profile:\n{err}\n")
            sys.exit(2)

    env = dict(P.ENV)
    env["VERIF_NDA_CHECK"] = check

    def run(k):
        try:
            r = subprocess.run([bins[k][0]], capture_output=True, text=True, timeout=600, env=env, cwd="/dev/shm")
            return r.returncode, r.stdout, r.stderr[-1500:]
        except subprocess.TimeoutExpired:
            return -999, "", "timeout"

    with cf.ThreadPoolExecutor(max_workers=16) as ex:
        results = list(ex.map(run, range(len(batches))))
    viols, machinery = [], []
    evals = ntypes = 0
    for k, (rc, out, err) in enumerate(results):
        last = None
        for l in out.splitlines():
            if l.startswith("BEGIN "):
                last = l[6:]
                continue
            try:
                v = json.loads(l)
            except Exception:
                continue
            last = None
            ntypes += 1
            evals += v.get("evals", 0)
            machinery += v.get("machinery", [])
            for x in v.get("viols", []):
                viols.append((x["key"], x.get("count", 1), x.get("detail")))
        if rc != 0:
            if last is not None:
                viols.append((f"{check}|{last}|no-debug-assertions:process-died", 1, {"observed": f"the release-profile program died (exit {rc}) while exploring this type: {err[-300:]}"}))
            else:
                machinery.append(f"nda batch {k} exited {rc}: {err[-300:]}")
    os.makedirs(os.path.join(ROOT, "evidence/replay"), exist_ok=True)
    for f in glob.glob(os.path.join(ROOT, f"evidence/replay/{check}-N*.json")):
        os.remove(f)
    for n, (key_, cnt, detail) in enumerate(viols):
        path = os.path.join(ROOT, f"evidence/replay/{check}-N{n:04d}.json")
        parts = key_.split("|")
        json.dump({"check": check, "key": key_ + "|no-debug-assertions", "profile": "rel (opt-level 1, no debug assertions, no overflow checks)", "type_id": parts[1] if len(parts) > 1 else "", "class": parts[-1], "occurrences": cnt, "detail": detail, "tier": "quick"}, open(path, "w"), indent=1)
        print(f"VIOLATION property={check} replay={path}")
        if n < 12:
            sys.stderr.write(f"  violation (no debug assertions) {key_} x{cnt}\n")
    # merge into the evidence written by the runner
    evp = os.path.join(ROOT, f"evidence/{check}.json")
    try:
        ev = json.load(open(evp))
        c = ev["coverage"].setdefault("counters", {})
        c["release_profile_pass_types"] = ntypes
        c["release_profile_pass_evaluations"] = evals
        c["release_profile_pass_violations"] = len(viols)
        ev["coverage"]["new_violations"] = ev["coverage"].get("new_violations", 0) + len(viols)
        ev["violations"] = ev.get("violations", 0) + len(viols)
        ev["wall_s"] = ev.get("wall_s", 0) + (time.time() - t0)
        json.dump(ev, open(evp, "w"), indent=1)
    except Exception as e:  # the runner always writes it first
        machinery.append(f"cannot merge into {evp}: {e}")
    sys.stderr.write(f"{check} quick (release-profile pass): types={ntypes} evaluations={evals} violations={len(viols)} wall={time.time() - t0:.1f}s\n")
    if machinery:
        for m in machinery[:8]:
            sys.stderr.write("MACHINERY: " + str(m) + "\n")
        sys.exit(2)
    sys.exit(1 if viols else 0)


if __name__ == "__main__":
    main()
