#!/usr/bin/env python3
"""Deterministic, exhaustive generator of the bounded type universe.

Emits
  harness/udefs/src/lib.rs          derived definitions + Dom/EpsView impls
  harness/us00..usNN/src/lib.rs     one registration (+ compile-time ε-type ascription) per
                                    closed type; thorough-only types under cfg(feature="thorough")
Nothing is sampled: the universe is the complete set of terms up to the stated bounds.
Files are rewritten only when their content changes (keeps cargo fingerprints stable).
"""
import hashlib
import re
import json
import os
import sys
from dataclasses import dataclass

sys.path.insert(0, os.path.dirname(os.path.abspath(__file__)))
import defs as D

ROOT = os.path.dirname(os.path.dirname(os.path.abspath(__file__)))
H = os.path.join(ROOT, "harness")
NSHARDS = 48


@dataclass(frozen=True)
class T:
    expr: str  # Rust type expression
    zero: bool  # CopyType::Copy == Zero
    copy: bool  # Rust `Copy` (zero && copy == the ZeroCopy marker trait)
    eps: str  # expected ε-copy type, with lifetime 'a
    depth: int
    zst: bool = False

    @property
    def zc(self):
        return self.zero and self.copy

    @property
    def seq_ok(self):
        """May be the element of Vec / Box<[]> / array."""
        return self.zc or not self.zero


PRIMS = ["u8", "u16", "u32", "u64", "u128", "usize", "i8", "i16", "i32", "i64", "i128", "isize", "f32", "f64", "bool", "char"]
NZ = ["NonZeroU8", "NonZeroU16", "NonZeroU32", "NonZeroU64", "NonZeroU128", "NonZeroUsize",
      "NonZeroI8", "NonZeroI16", "NonZeroI32", "NonZeroI64", "NonZeroI128", "NonZeroIsize"]


def prim(n):
    return T(n, True, True, n, 0)


def leaf_deep(n, eps):
    return T(n, False, False, eps, 0)


UNIT = T("()", True, True, "()", 0, zst=True)
PH_U8 = T("PhantomData<u8>", True, True, "PhantomData<u8>", 0, zst=True)
PH_STR = T("PhantomData<str>", True, True, "PhantomData<str>", 0, zst=True)
RFULL = T("RangeFull", True, True, "RangeFull", 0, zst=True)
STRING = leaf_deep("String", "&'a str")
BOXSTR = leaf_deep("Box<str>", "&'a str")

DEFS = {d.name: d for d in D.curated()}


def inst(name, args=()):
    """Instantiate a curated definition with argument terms (T) / const ints."""
    d = DEFS[name]
    fps = d.field_param_names()
    exprs, eps_args, depth = [], [], 0
    for p, a in zip(d.params, args):
        if p.kind == "const":
            exprs.append(str(a))
            eps_args.append(str(a))
        else:
            exprs.append(a.expr)
            depth = max(depth, a.depth + 1)
            eps_args.append(a.eps if (p.name in fps and not d.zero) else a.expr)
    g = f"<{', '.join(exprs)}>" if exprs else ""
    ge = f"<{', '.join(eps_args)}>" if eps_args else ""
    expr = d.name + g
    if d.zero:
        zst = name in ("Z0", "Z16")
        return T(expr, True, True, f"&'a {expr}", depth, zst=zst)
    return T(expr, False, False, d.name + ge, depth)


def vec(t):
    return T(f"Vec<{t.expr}>", False, False, f"&'a [{t.expr}]" if t.zc else f"Vec<{t.eps}>", t.depth + 1)


def boxs(t):
    return T(f"Box<[{t.expr}]>", False, False, f"&'a [{t.expr}]" if t.zc else f"Box<[{t.eps}]>", t.depth + 1)


def arr(t, n):
    e = f"[{t.expr}; {n}]"
    if t.zc:
        return T(e, True, True, f"&'a {e}", t.depth + 1, zst=(n == 0 or t.zst))
    return T(e, False, False, f"[{t.eps}; {n}]", t.depth + 1)


def tup(t, n):
    e = "(" + ", ".join([t.expr] * n) + ("," if n == 1 else "") + ")"
    return T(e, True, True, f"&'a {e}", t.depth + 1, zst=t.zst)


def opt(t):
    return T(f"Option<{t.expr}>", False, False, f"Option<{t.eps}>", t.depth + 1)


def bound(t):
    return T(f"Bound<{t.expr}>", False, False, f"Bound<{t.eps}>", t.depth + 1)


def cflow(b, c):
    return T(f"ControlFlow<{b.expr}, {c.expr}>", False, False, f"ControlFlow<{b.eps}, {c.eps}>", max(b.depth, c.depth) + 1)


def rng(kind, t):
    # ranges are zero copy-kind; only RangeTo / RangeToInclusive are Copy
    return T(f"{kind}<{t.expr}>", True, kind in ("RangeTo", "RangeToInclusive"), f"{kind}<{t.eps}>", t.depth + 1, zst=t.zst)


RANGES = ["Range", "RangeFrom", "RangeInclusive", "RangeTo", "RangeToInclusive"]


def unary(t, full):
    """All unary constructors applicable to t."""
    out = [opt(t), bound(t)]
    if t.seq_ok:
        out += [vec(t), boxs(t), arr(t, 0), arr(t, 1), arr(t, 3)]
    if t.zc:
        out += [tup(t, 1), tup(t, 2), tup(t, 3)]
        if full:
            out += [tup(t, 12)]
        out += [rng(k, t) for k in RANGES]
    return out


def universe(tier):
    L1 = [prim(p) for p in PRIMS] + [prim(n) for n in NZ] + [UNIT, PH_U8, PH_STR, RFULL, STRING, BOXSTR]
    derived_leaves = [inst(n) for n in ["P1", "Z0", "Z16", "P64", "NT", "T3", "ZN", "ZA", "ZB", "ZR", "ZT3", "NT16", "EW12", "EZ", "EU", "EZS", "EZ16", "EO", "ED", "EDZ", "EDM", "D1", "D1Z", "DN", "DV", "DT", "DU", "DZ", "RAW", "E1", "E2", "N1"]]
    L2 = [prim(p) for p in ["u8", "u16", "u32", "u64", "u128", "bool", "char", "f64"]] + [UNIT, prim("NonZeroU16"), STRING, PH_U8]
    L2 += [inst(n) for n in ["P1", "Z0", "Z16", "D1", "E1", "T3"]]
    terms = []

    def add(t):
        terms.append(t)

    for t in L1 + derived_leaves:
        add(t)
    # depth 1 over L1 and the derived leaves
    d1 = []
    for t in L1 + derived_leaves:
        for u in unary(t, True):
            add(u)
            d1.append(u)
    # control flow over a small square
    cf_args = [prim("u8"), prim("u64"), STRING, inst("P1"), vec(prim("u32")), UNIT]
    for b in cf_args:
        for c in cf_args:
            add(cflow(b, c))
    # depth 2 over L2 (quick: inner and outer constructors restricted; thorough: all)
    K2 = lambda t: unary(t, False)
    Kq = lambda t: ([vec(t), boxs(t), arr(t, 3), arr(t, 0)] if t.seq_ok else []) + [opt(t), bound(t)]
    for t in L2:
        inner = unary(t, False) if tier == "thorough" else ([vec(t), arr(t, 3)] if t.seq_ok else []) + [opt(t)] + ([tup(t, 2), rng("RangeTo", t)] if t.zc else [])
        for m in inner:
            for u in (K2(m) if tier == "thorough" else Kq(m)):
                add(u)
    # array length under wrappers whose alignment hash does not recurse
    for t in [prim("u8"), prim("u16"), inst("P1"), STRING]:
        for n in (0, 1, 2, 3, 4):
            add(bound(arr(t, n))); add(opt(arr(t, n)))
            if t.zc:
                add(inst("GP", [vec(prim("u8")), T(f"[{t.expr}; {n}]", True, True, "", 0)]))
    # a structure whose destructor reads its borrowed data
    add(T("DR<Vec<u64>>", False, False, "DR<&'a [u64]>", 1))
    # ranges that are not the last thing in the stream
    for k in RANGES:
        for ix in [prim("u8"), prim("u64"), inst("P1")]:
            r = rng(k, ix)
            add(vec(opt(r))); add(arr(opt(r), 3)); add(cflow(r, STRING)); add(opt(bound(r)))
    # generic derived items
    args = [prim("u8"), prim("u64"), UNIT, STRING, vec(prim("u8")), vec(prim("u32")), vec(STRING), vec(vec(prim("u16"))),
            inst("P1"), inst("Z16"), inst("D1"), inst("E1"), opt(vec(prim("u64"))), boxs(inst("P1")), arr(prim("u32"), 3), tup(prim("u16"), 2), prim("bool"),
            # one argument per remaining implementation family: 16-byte unit, tags, ranges with and
            # without the trailing flag, boxed strings, zero-sized, deep arrays
            prim("u128"), prim("char"), opt(prim("u32")), bound(prim("u16")), cflow(prim("u8"), STRING), BOXSTR, PH_U8, arr(STRING, 2),
            rng("RangeToInclusive", prim("u16")), rng("RangeInclusive", prim("u32")), prim("NonZeroU32")]
    gens = []
    for a in args:
        gens += [inst("G1", [a]), inst("W", [a]), inst("GT", [a]), inst("GB", [a]), inst("GN", [a])]
        gens += [inst("GP", [a, T("u8", True, True, "u8", 0)]), inst("GD", [a, 2]), inst("GE", [a, vec(prim("u8"))])]
        gens += [inst("GV", [a]), inst("GPR", [a]), inst("GEC", [a, 4]), inst("GEC", [a, 6]), inst("GCF", [3, a])]
        if a.zc:
            gens += [inst("GZI", [a])]
            # F15 (repaired): with the pinned derive a zero-copy item with a bounded field
            # parameter only accepts arguments whose ε-type is themselves; the other
            # instantiations cannot be compiled against the pinned build (no golden data).
            gens += [inst("ZG", [a])]
        if not a.zero:
            gens += [inst("GI", [a]), inst("GEI", [a])]
    small = [prim("u8"), STRING, vec(prim("u32")), inst("P1"), inst("Z16"), vec(STRING), rng("RangeInclusive", prim("u32")), rng("Range", prim("u64")), vec(prim("u128")), prim("bool")]
    # one-byte values read through the ε-copy path of a parameter-typed field, an odd number of
    # them, followed by aligned data
    gens += [inst("G2", [vec(opt(prim("bool"))), vec(prim("u16"))]), inst("G2", [opt(prim("bool")), vec(prim("u32"))]), inst("G2", [arr(prim("bool"), 3), vec(prim("u64"))]),
             inst("G2", [opt(prim("u8")), inst("Z16")]), inst("G2", [prim("char"), vec(prim("u16"))]), inst("G2", [opt(prim("char")), vec(prim("u64"))])]
    for a in small:
        for b in small:
            gens += [inst("G2", [a, b]), inst("GE", [a, b])]
    gens += [inst("GP", [vec(prim("u8")), T(q, True, True, q, 0)]) for q in ["String", "(u8, u16)", "Vec<u8>"]]
    gens += [inst("GD", [vec(prim("u8")), n]) for n in (0, 1, 3)]
    gens += [inst("GC", [n]) for n in (0, 1, 3)] + [inst("ZCN", [n]) for n in (0, 1, 3)]
    gens += [inst("GC2", [2, 3]), inst("GC2", [3, 2]), inst("GC2", [0, 1]), inst("ZC2", [2, 3]), inst("ZC2", [3, 2])]
    # nesting of generic items
    g1v = inst("G1", [vec(prim("u8"))])
    gens += [inst("G1", [g1v]), inst("G1", [inst("G2", [STRING, vec(prim("u32"))])]), inst("W", [inst("ZG", [prim("u16")])]), inst("G1", [vec(inst("ZG", [prim("u32")]))]),
             inst("G2", [g1v, inst("GE", [STRING, vec(prim("u8"))])]), inst("GI", [g1v]), inst("ZG", [prim("f64")]), inst("ZG", [prim("u128")]), inst("ZG", [inst("ZG", [inst("P1")])])]
    for g in gens:
        add(g)
        wr = [vec(g)] if g.seq_ok else [opt(g)]  # (the thorough tier once also took Option<G> and [G; 3]: dropped for link size)
        for u in wr:
            add(u)
    if tier == "thorough":
        # depth 3 over L2 with the restricted constructor set
        K3 = lambda t: ([vec(t), boxs(t), arr(t, 3), arr(t, 0)] if t.seq_ok else []) + [opt(t)]
        K3o = lambda t: ([vec(t), arr(t, 3)] if t.seq_ok else []) + [opt(t)]
        for t in L2:
            for u in K3(t):
                for v in K3o(u):
                    for w in K3o(v):
                        add(w)
        # depth 2 over all of L1 with {Vec, Option, [_;3]}
        K3b = lambda t: ([vec(t), arr(t, 3)] if t.seq_ok else []) + [opt(t)]
        for t in d1:
            if t.depth == 1 and not t.expr.startswith(("(", "Range", "Bound", "[")):
                for u in K3b(t):
                    add(u)
    # dedupe, deterministic order
    seen, out = set(), []
    for t in terms:
        if t.expr not in seen:
            seen.add(t.expr)
            out.append(t)
    return out


def write_if_changed(path, content):
    os.makedirs(os.path.dirname(path), exist_ok=True)
    try:
        if open(path).read() == content:
            return False
    except FileNotFoundError:
        pass
    with open(path, "w") as f:
        f.write(content)
    return True


PRELUDE = """// @generated by gen/universe.py -- do not edit
#![allow(unused_imports, unused_variables, dead_code, non_camel_case_types, clippy::all)]
use core::marker::PhantomData;
use core::num::*;
use core::ops::{Bound, ControlFlow, Range, RangeFrom, RangeFull, RangeInclusive, RangeTo, RangeToInclusive};
use epserde::prelude::*;
"""


DR_SRC = """
/// A structure whose destructor reads the data it holds (borrowed, after ε-copy deserialization).
#[derive(Epserde, Clone, Debug)]
pub struct DR<A: AsRef<[u64]>> { pub data: A }
pub static DR_DROPS: core::sync::atomic::AtomicU64 = core::sync::atomic::AtomicU64::new(0);
impl<A: AsRef<[u64]>> Drop for DR<A> {
    fn drop(&mut self) {
        // touch every item of the data
        let mut h = 0u64;
        for x in self.data.as_ref() { h = h.wrapping_mul(31).wrapping_add(unsafe { core::ptr::read_volatile(x) }); }
        DR_DROPS.fetch_add(h | 1, core::sync::atomic::Ordering::Relaxed);
    }
}
impl vcore::dom::Dom for DR<Vec<u64>> {
    fn ty() -> Ty { Ty::Adt(std::rc::Rc::new(Adt { name: "DR".to_string(), is_enum: false, zero: false, reprs: vec![], consts: vec![], variants: vec![Variant { name: "DR".to_string(), style: VStyle::Named, fields: vec![Field { name: "data".to_string(), ty: <Vec<u64> as vcore::dom::Dom>::ty(), is_param: true }], disc: None }] })) }
    fn values(cx: &mut vcore::dom::ValCx) -> Vec<Self> { <Vec<u64> as vcore::dom::Dom>::values(cx).into_iter().map(|d| DR { data: d }).collect() }
    fn to_val(&self) -> Val { Val::Struct(vec![vcore::dom::Dom::to_val(&self.data)]) }
    fn scale(&self, k: usize) -> Self { DR { data: vcore::dom::Dom::scale(&self.data, k) } }
    fn owned(&self, out: &mut Vec<(usize, usize)>) { vcore::dom::Dom::owned(&self.data, out) }
}
impl<A: AsRef<[u64]> + vcore::dom::EpsView> vcore::dom::EpsView for DR<A> {
    fn eps_val(&self) -> Val { Val::Struct(vec![self.data.eps_val()]) }
    fn spans(&self, out: &mut Vec<vcore::dom::Span>) { self.data.spans(out) }
}
"""


def emit_udefs():
    s = PRELUDE + "use vcore::model::*;\n\n" + DR_SRC
    for d in D.curated():
        s += d.item() + "\n" + d.dom_impl() + "\n" + d.eps_impl() + "\n"
    s += twins_src()
    write_if_changed(os.path.join(H, "udefs/src/lib.rs"), s)


def twins_src():
    """Pairs of DIFFERENT types with the SAME `core::any::type_name` (same-named items in sibling
    blocks of one function). The runner gives both members of a pair to the same worker
    process, one after the other: anything the library remembers per type name, per type hash
    or per generic definition across calls shows up on the second member."""
    pairs = [
        ("deep", D.S("Tw", [("a", "u32"), ("b", "Vec<u16>")]), D.S("Tw", [("a", "u64"), ("b", "Vec<u16>")])),
        ("zero", D.S("Tw", [("a", "u16"), ("b", "u8")], D.ZC), D.S("Tw", [("a", "u64"), ("b", "u8")], D.ZC)),
        ("repr", D.S("Tw", [("a", "u32")], D.ZC), D.S("Tw", [("a", "u32")], ("repr(C)", "repr(align(16))", "zero_copy"))),
        ("enum", D.E("Tw", [D.Variant("A", "unit", []), D.Variant("B", "tuple", [("0", "u32")])]), D.E("Tw", [D.Variant("A", "tuple", [("0", "u8")]), D.Variant("B", "unit", [])])),
        ("kind", D.S("Tw", [("a", "u32"), ("b", "u32")], D.ZC), D.S("Tw", [("a", "u32"), ("b", "u32")])),
    ]
    out = "\n/// See `twins_src` in gen/universe.py.\npub fn twins() -> Vec<(vcore::Entry, vcore::Entry)> {\n    let mut v = Vec::new();\n"
    for tag, a, b in pairs:
        ents = []
        for side, d in (("a", a), ("b", b)):
            body = d.item() + "\n" + d.dom_impl() + "\n" + d.eps_impl()
            body = body.replace("\n", "\n        ")
            out += f"    let e_{side} = {{\n        {body}\n        vcore::entry::<Tw>(\"twin.{tag}.{side}::Tw\")\n    }};\n"
        out += "    v.push((e_a, e_b));\n"
    out += "    v\n}\n"
    return out


def postfix(x):
    """Types that only compile with the repaired derive (F15): ZG<non-primitive>."""
    for m in re.finditer(r"ZG<([A-Za-z0-9]+)", x.expr):
        if m.group(1) not in PRIMS:
            return True
    return "ZG<(" in x.expr or "ZG<[" in x.expr


def emit_shards(q, t):
    qset = {x.expr for x in q}
    allt = list(q) + [x for x in t if x.expr not in qset]
    shards = [[] for _ in range(NSHARDS)]
    for i, x in enumerate(allt):
        shards[i % NSHARDS].append((i, x, x.expr in qset))
    for k, items in enumerate(shards):
        s = PRELUDE + "use udefs::*;\n\npub fn register(v: &mut Vec<vcore::Entry>) {\n"
        def cfg_of(x, isq, ind):
            c = "" if isq else ind + '#[cfg(feature = "thorough")]\n'
            if postfix(x):
                c += ind + '#[cfg(not(feature = "pinned"))]\n'
            return c
        for i, x, isq in items:
            s += f'{cfg_of(x, isq, "    ")}    v.push(vcore::entry::<{x.expr}>({json.dumps(x.expr)}));\n'
        s += "}\n\n"
        for i, x, isq in items:
            cfg = cfg_of(x, isq, "")
            s += f"{cfg}fn _eps_type_{i}<'a>(b: &'a [u8]) -> epserde::deser::Result<{x.eps}> {{ <{x.expr} as epserde::deser::Deserialize>::deserialize_eps(b) }}\n"
        d = os.path.join(H, f"us{k:02d}")
        write_if_changed(os.path.join(d, "src/lib.rs"), s)
        write_if_changed(os.path.join(d, "Cargo.toml"), f"""[package]
name = "us{k:02d}"
version = "0.1.0"
edition = "2021"

[features]
thorough = []
pinned = []

[dependencies]
vcore = {{ path = "../vcore" }}
udefs = {{ path = "../udefs" }}
epserde = {{ workspace = true }}
""")
    reg = "// @generated\npub fn all() -> Vec<vcore::Entry> {\n    let mut v = Vec::new();\n"
    for k in range(NSHARDS):
        # `half_a` / `half_b`: only one half of the shards is linked (the golden build of the
        # thorough universe against the pinned library does not link in one piece)
        reg += f"    #[cfg(not(feature = \"{'half_b' if k < NSHARDS // 2 else 'half_a'}\"))]\n    us{k:02d}::register(&mut v);\n"
    reg += "    v\n}\n"
    write_if_changed(os.path.join(H, "runner/src/universe.rs"), reg)
    return allt


def main():
    q = universe("quick")
    t = universe("thorough")
    emit_udefs()
    allt = emit_shards(q, t)
    h = hashlib.sha256("\n".join(x.expr for x in allt).encode()).hexdigest()[:16]
    info = {"quick_types": len(q), "thorough_types": len(allt), "universe_hash": h, "shards": NSHARDS}
    write_if_changed(os.path.join(H, "universe.json"), json.dumps(info, indent=1) + "\n")
    print(json.dumps(info))


if __name__ == "__main__":
    main()
