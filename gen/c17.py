#!/usr/bin/env python3
"""C17: a type wrongly declared zero-copy can never be serialized as raw memory.

From every valid zero-copy definition, derive the BAD definitions (one field replaced by a
non-zero-copy type, repr(C) dropped or fused, conflicting attribute) and compile each probe
alone. Oracle: it does not compile, or — if it does — serialize() panics and the sink has
received no byte after the header.
"""
import os
import re
import sys
import time

sys.path.insert(0, os.path.dirname(os.path.abspath(__file__)))
import probes as P

PRELUDE = """#![allow(dead_code, unused_imports, non_camel_case_types)]
use core::marker::PhantomData;
use epserde::prelude::*;

#[derive(Epserde, Clone, Debug)]
pub struct DeepS { pub id: u32, pub name: String }

/// a deep-copy struct that is Copy and has a hand-written MaxSizeOf (reaches the inner defences)
#[derive(Epserde, Clone, Copy, Debug)]
#[deep_copy]
pub struct CopyDeep { pub a: u16, pub b: u64 }
impl MaxSizeOf for CopyDeep { fn max_size_of() -> usize { 8 } }

/// deep-copy (explicitly, and implicitly) structs that are Copy, repr(C), made of zero-copy fields
#[derive(Epserde, Clone, Copy, Debug)]
#[repr(C)]
#[deep_copy]
pub struct CopyDeepC { pub a: u16, pub b: u64 }
impl MaxSizeOf for CopyDeepC { fn max_size_of() -> usize { 8 } }
#[derive(Epserde, Clone, Copy, Debug)]
#[repr(C)]
pub struct CopyPlainC { pub a: u16, pub b: u64 }
impl MaxSizeOf for CopyPlainC { fn max_size_of() -> usize { 8 } }

#[derive(Epserde, Clone, Copy, Debug)]
#[repr(C)]
#[zero_copy]
pub struct P1 { pub a: u8, pub b: u32 }
"""

# valid zero-copy shapes: (name, generics, fields [(name, type, value expr)], style)
BASES = [
    ("S2", "", [("a", "u8", "7"), ("b", "u64", "9")], "named"),
    ("S3", "", [("a", "u32", "1"), ("p", "P1", "P1 { a: 1, b: 2 }"), ("c", "[u16; 3]", "[1, 2, 3]")], "named"),
    ("T1", "", [("0", "u64", "5")], "tuple"),
    ("T2", "", [("0", "u8", "5"), ("1", "f64", "1.5")], "tuple"),
    ("SP", "", [("a", "u16", "3"), ("ph", "PhantomData<u8>", "PhantomData")], "named"),
]
ENUM_BASES = [
    ("EB", [("A", []), ("B", [("0", "u16", "3")]), ("C", [("x", "u8", "1"), ("y", "u64", "2")])]),
]

# replacement field types: (label, type, value expr, is Rust-Copy)
BAD = [
    ("vec", "Vec<u8>", "vec![1u8, 2, 3]", False),
    ("string", "String", "String::from(\"abc\")", False),
    ("boxslice", "Box<[u8]>", "vec![1u8, 2].into_boxed_slice()", False),
    ("deepstruct", "DeepS", "DeepS { id: 1, name: String::from(\"n\") }", False),
    ("copydeep", "CopyDeep", "CopyDeep { a: 1, b: 2 }", True),
    ("copydeepc", "CopyDeepC", "CopyDeepC { a: 1, b: 2 }", True),
    ("copyplainc", "CopyPlainC", "CopyPlainC { a: 1, b: 2 }", True),
    ("staticslice", "&'static [u8]", "&[1u8, 2, 3]", True),
    ("optionu8", "Option<u8>", "Some(3u8)", True),
    ("vecvec", "Vec<Vec<u16>>", "vec![vec![1u16]]", False),
]

HAND = """
pub static FAKE_DATA: [u8; 3] = [1, 2, 3];
#[derive(Clone, Copy, Debug)]
pub struct Fake { pub s: &'static [u8] }
impl CopyType for Fake { type Copy = Zero; }
impl MaxSizeOf for Fake { fn max_size_of() -> usize { 8 } }
impl TypeHash for Fake { fn type_hash(h: &mut impl core::hash::Hasher) { use core::hash::Hash; "Fake".hash(h); } }
impl AlignHash for Fake { fn align_hash(_h: &mut impl core::hash::Hasher, _o: &mut usize) {} }
impl epserde::ser::SerializeInner for Fake {
    type SerType = Self;
    const IS_ZERO_COPY: bool = false; // what the derive computes: not all fields are zero-copy
    const ZERO_COPY_MISMATCH: bool = false;
    fn _serialize_inner(&self, backend: &mut impl epserde::ser::WriteWithNames) -> epserde::ser::Result<()> { epserde::ser::helpers::serialize_zero(backend, self) }
}
impl epserde::deser::DeserializeInner for Fake {
    type DeserType<'a> = &'a Fake;
    fn _deserialize_full_inner(backend: &mut impl epserde::deser::ReadWithPos) -> epserde::deser::Result<Self> { epserde::deser::helpers::deserialize_full_zero::<Self>(backend) }
    fn _deserialize_eps_inner<'a>(backend: &mut epserde::deser::SliceWithPos<'a>) -> epserde::deser::Result<&'a Fake> { epserde::deser::helpers::deserialize_eps_zero::<Self>(backend) }
}
#[derive(Epserde, Clone, Copy, Debug)]
#[repr(C)]
#[zero_copy]
pub struct HoldsFake { pub n: u32, pub f: Fake }
#[derive(Epserde, Clone, Debug)]
pub struct DeepHoldsFake { pub n: u32, pub f: Fake, pub v: Vec<Fake> }
#[derive(Epserde, Clone, Debug)]
pub struct Gen<A> { pub a: A }
#[derive(Epserde, Clone, Copy, Debug)]
#[repr(C)]
#[zero_copy]
pub struct HoldsRange { pub n: u32, pub r: core::ops::RangeTo<Fake>, pub ri: core::ops::RangeToInclusive<Fake> }
#[derive(Epserde, Clone, Debug)]
pub struct Pre<A> { pub s: String, pub f: A }
/// reports zero items, yields all of them
pub struct Under<'a>(pub std::slice::Iter<'a, Fake>);
impl<'a> Iterator for Under<'a> { type Item = &'a Fake; fn next(&mut self) -> Option<&'a Fake> { self.0.next() } fn size_hint(&self) -> (usize, Option<usize>) { (0, Some(0)) } }
impl<'a> ExactSizeIterator for Under<'a> { fn len(&self) -> usize { 0 } }
pub static FAKES: [Fake; 2] = [Fake { s: &FAKE_DATA }, Fake { s: &FAKE_DATA }];
"""
F = "Fake { s: &FAKE_DATA }"
HAND_CONTEXTS = [
    ("alone", "Fake", F),
    ("vec", "Vec<Fake>", f"vec![{F}, {F}]"),
    ("boxslice", "Box<[Fake]>", f"vec![{F}].into_boxed_slice()"),
    ("array", "[Fake; 2]", f"[{F}, {F}]"),
    ("array1", "[Fake; 1]", f"[{F}]"),
    ("vec-of-array", "Vec<[Fake; 2]>", f"vec![[{F}, {F}]]"),
    ("option-vec", "Option<Vec<Fake>>", f"Some(vec![{F}])"),
    ("zero-struct-field", "HoldsFake", f"HoldsFake {{ n: 1, f: {F} }}"),
    ("vec-of-zero-struct", "Vec<HoldsFake>", f"vec![HoldsFake {{ n: 1, f: {F} }}]"),
    ("deep-struct-field", "DeepHoldsFake", f"DeepHoldsFake {{ n: 1, f: {F}, v: vec![{F}] }}"),
    ("generic-field", "Gen<Fake>", f"Gen {{ a: {F} }}"),
    ("generic-vec", "Gen<Vec<Fake>>", f"Gen {{ a: vec![{F}] }}"),
    ("slice", "&[Fake]", f"&[{F}, {F}][..]"),
    ("tuple1", "(Fake,)", f"({F},)"),
    ("tuple2", "(Fake, Fake)", f"({F}, {F})"),
    ("vec-of-tuple", "Vec<(Fake, Fake)>", f"vec![({F}, {F})]"),
    ("rangeto", "Vec<core::ops::RangeTo<Fake>>", f"vec![..{F}]"),
    ("rangetoinclusive", "Vec<core::ops::RangeToInclusive<Fake>>", f"vec![..={F}]"),
    ("rangetoinclusive-box", "Box<[core::ops::RangeToInclusive<Fake>]>", f"vec![..={F}].into_boxed_slice()"),
    ("rangetoinclusive-array", "[core::ops::RangeToInclusive<Fake>; 2]", f"[..={F}, ..={F}]"),
    ("rangeto-array", "[core::ops::RangeTo<Fake>; 1]", f"[..{F}]"),
    ("rangeto-in-zero-struct", "HoldsRange", f"HoldsRange {{ n: 1, r: ..{F}, ri: ..={F} }}"),
    ("tuple-of-rangetoinclusive", "Vec<(core::ops::RangeToInclusive<Fake>,)>", f"vec![(..={F},)]"),
    ("tuple3", "Vec<(Fake, Fake, Fake)>", f"vec![({F}, {F}, {F})]"),
    ("tuple12", "Vec<(Fake, Fake, Fake, Fake, Fake, Fake, Fake, Fake, Fake, Fake, Fake, Fake)>", "vec![(" + ", ".join([F] * 12) + ")]"),
    ("seriter", "SerIter<'static, Fake, std::slice::Iter<'static, Fake>>", f"SerIter::from(FAKES.iter())"),
    ("seriter-in-generic", "Gen<SerIter<'static, Fake, std::slice::Iter<'static, Fake>>>", f"Gen {{ a: SerIter::from(FAKES.iter()) }}"),
    ("slice-in-generic", "Gen<&[Fake]>", f"Gen {{ a: &FAKES[..] }}"),
    ("seriter-underreporting", "SerIter<'static, Fake, Under<'static>>", "SerIter::from(Under(FAKES.iter()))"),
    ("seriter-underreporting-in-generic", "Gen<SerIter<'static, Fake, Under<'static>>>", "Gen { a: SerIter::from(Under(FAKES.iter())) }"),
] + [
    # the wrong value, its zero-copy holder and an array of it at every residue of the stream offset
    (f"after-string-{k}", "Pre<Fake>", f"Pre {{ s: String::from(\"{'x' * k}\"), f: {F} }}") for k in range(8)
] + [
    (f"holder-after-string-{k}", "Pre<HoldsFake>", f"Pre {{ s: String::from(\"{'x' * k}\"), f: HoldsFake {{ n: 1, f: {F} }} }}") for k in range(8)
] + [
    (f"array-after-string-{k}", "Pre<[Fake; 2]>", f"Pre {{ s: String::from(\"{'x' * k}\"), f: [{F}, {F}] }}") for k in (0, 3, 5)
]

MAIN = """
fn main() {
    let v = %(ctor)s;
    let mut sink: Vec<u8> = Vec::new();
    std::panic::set_hook(Box::new(|_| {}));
    let r = std::panic::catch_unwind(std::panic::AssertUnwindSafe(|| v.serialize(&mut sink).map_err(|e| format!("{:?}", e))));
    let header = 37 + core::any::type_name::<%(ty)s>().len();
    match r {
        Err(_) => println!("PANIC sink={} header={}", sink.len(), header),
        Ok(Ok(n)) => println!("OK n={} sink={} header={}", n, sink.len(), header),
        Ok(Err(e)) => println!("ERR {} sink={} header={}", e, sink.len(), header),
    }
}
"""


MAIN_HAND = """
fn sink_len_hint() -> usize { 0 }
fn main() {
    let v = %(ctor)s;
    let mut sink: Vec<u8> = Vec::new();
    std::panic::set_hook(Box::new(|_| {}));
    // two attempts in the same process: the second one must be refused like the first
    let first = std::panic::catch_unwind(std::panic::AssertUnwindSafe(|| v.%(entry)s(&mut sink).map(|_| sink_len_hint()).map_err(|e| format!("{:?}", e))));
    let r = if first.is_err() { std::panic::catch_unwind(std::panic::AssertUnwindSafe(|| v.%(entry)s(&mut sink).map(|_| sink_len_hint()).map_err(|e| format!("{:?}", e)))) } else { first };
    let needle = (FAKE_DATA.as_ptr() as usize).to_ne_bytes();
    let leaked = sink.windows(8).any(|w| w == needle);
    let header = 37 + core::any::type_name::<%(ty)s>().len();
    match r {
        Err(_) => println!("PANIC sink={} header={} pointer_in_sink={}", sink.len(), header, leaked),
        Ok(Ok(n)) => println!("OK n={} sink={} header={} pointer_in_sink={}", n, sink.len(), header, leaked),
        Ok(Err(e)) => println!("ERR {} sink={} header={} pointer_in_sink={}", e, sink.len(), header, leaked),
    }
}
"""


# serialization started from a destructor WHILE THE THREAD IS UNWINDING from an unrelated panic
# (a "store a checkpoint on drop" pattern): the run-time check must still stop it. A panic there
# is a panic during cleanup, i.e. the process aborts; what reached the sink is read from a file.
MAIN_ONDROP = """
struct OnDrop<'a, T: Serialize>(&'a T, String);
impl<'a, T: Serialize> Drop for OnDrop<'a, T> {
    fn drop(&mut self) {
        use std::io::Write;
        let mut f = std::fs::File::create(&self.1).unwrap();
        let _ = self.0.serialize(&mut f);
        let _ = f.flush();
    }
}
fn main() {
    use std::io::Write;
    let v = %(ctor)s;
    let path = std::env::var("VERIF_PROBE_SINK").unwrap();
    let needle = (FAKE_DATA.as_ptr() as usize).to_ne_bytes();
    println!("NEEDLE {}", FAKE_DATA.as_ptr() as usize);
    std::io::stdout().flush().unwrap();
    std::panic::set_hook(Box::new(|_| {}));
    let r = std::panic::catch_unwind(std::panic::AssertUnwindSafe(|| { let _g = OnDrop(&v, path.clone()); panic!("unrelated failure"); }));
    // reached only if the destructor returned normally
    let sink = std::fs::read(&path).unwrap_or_default();
    let leaked = sink.windows(8).any(|w| w == needle);
    let header = 37 + core::any::type_name::<%(ty)s>().len();
    println!("RETURNED sink={} header={} pointer_in_sink={}", sink.len(), header, leaked);
}
"""


def struct_item(name, attrs, derives, fields, style):
    a = "".join(f"#[{x}]\n" for x in attrs)
    if style == "named":
        body = "{ " + ", ".join(f"pub {n}: {t}" for n, t, _ in fields) + " }"
        ctor = f"{name} {{ " + ", ".join(f"{n}: {v}" for n, _, v in fields) + " }"
        return f"#[derive({derives})]\n{a}pub struct {name} {body}\n", ctor
    body = "(" + ", ".join(f"pub {t}" for _, t, _ in fields) + ");"
    ctor = f"{name}(" + ", ".join(v for _, _, v in fields) + ")"
    return f"#[derive({derives})]\n{a}pub struct {name}{body}\n", ctor


def enum_item(name, attrs, derives, variants, pick):
    a = "".join(f"#[{x}]\n" for x in attrs)
    vs, ctor = [], None
    for vn, fs in variants:
        if not fs:
            vs.append(vn)
            c = f"{name}::{vn}"
        elif fs[0][0].isdigit():
            vs.append(f"{vn}(" + ", ".join(t for _, t, _ in fs) + ")")
            c = f"{name}::{vn}(" + ", ".join(v for _, _, v in fs) + ")"
        else:
            vs.append(f"{vn} {{ " + ", ".join(f"{n}: {t}" for n, t, _ in fs) + " }")
            c = f"{name}::{vn} {{ " + ", ".join(f"{n}: {v}" for n, _, v in fs) + " }"
        if vn == pick:
            ctor = c
    return f"#[derive({derives})]\n{a}pub enum {name} {{ " + ", ".join(vs) + " }\n", ctor


def family(tier):
    """[(id, source, kind)] ; kind 'bad' (must be rejected) or 'good' (positive control)."""
    out = []
    ZC = ["repr(C)", "zero_copy"]
    for name, _, fields, style in BASES:
        item, ctor = struct_item(name, ZC, "Epserde, Clone, Copy, Debug", fields, style)
        out.append((f"good.{name}", PRELUDE + item + MAIN % {"ctor": ctor, "ty": name}, "good"))
        for i in range(len(fields)):
            for label, ty, val, is_copy in BAD:
                nf = list(fields)
                nf[i] = (fields[i][0], ty, val)
                for derives in (["Epserde, Clone, Copy, Debug"] if is_copy else ["Epserde, Clone, Debug", "Epserde, Clone, Copy, Debug"]):
                    dl = "copy" if "Copy" in derives else "nocopy"
                    item, ctor = struct_item(name, ZC, derives, nf, style)
                    out.append((f"bad.{name}.f{i}.{label}.{dl}", PRELUDE + item + MAIN % {"ctor": ctor, "ty": name}, "bad"))
        # attribute mutations on the valid field set
        for label, attrs in [("norepr", ["zero_copy"]), ("fusedrepr", ["repr(C, align(8))", "zero_copy"]), ("reprrust", ["repr(Rust)", "zero_copy"]),
                             ("both", ["repr(C)", "zero_copy", "deep_copy"]), ("both-deepfirst", ["repr(C)", "deep_copy", "zero_copy"]), ("both-deep-repr-zero", ["deep_copy", "repr(C)", "zero_copy"]),
                             ("both-zero-repr-deep", ["zero_copy", "repr(C)", "deep_copy"]), ("both-deep-zero-repr", ["deep_copy", "zero_copy", "repr(C)"]), ("reprtransparent", ["repr(transparent)", "zero_copy"]), ("packed", ["repr(packed)", "zero_copy"]),
                             ("alignonly", ["repr(align(8))", "zero_copy"]), ("packed2only", ["repr(packed(2))", "zero_copy"]), ("alignthenzero", ["zero_copy", "repr(align(16))"])]:
            if label == "reprtransparent" and len(fields) != 1:
                continue
            item, ctor = struct_item(name, attrs, "Epserde, Clone, Copy, Debug", fields, style)
            out.append((f"bad.{name}.attr.{label}", PRELUDE + item + MAIN % {"ctor": ctor, "ty": name}, "bad"))
    for name, variants in ENUM_BASES:
        item, ctor = enum_item(name, ZC, "Epserde, Clone, Copy, Debug", variants, "C")
        out.append((f"good.{name}", PRELUDE + item + MAIN % {"ctor": ctor, "ty": name}, "good"))
        for vi, (vn, fs) in enumerate(variants):
            for i in range(len(fs)):
                for label, ty, val, is_copy in BAD:
                    nv = [(a, list(b)) for a, b in variants]
                    nv[vi][1][i] = (fs[i][0], ty, val)
                    for derives in (["Epserde, Clone, Copy, Debug"] if is_copy else ["Epserde, Clone, Debug"]):
                        item, ctor = enum_item(name, ZC, derives, nv, vn)
                        out.append((f"bad.{name}.{vn}.f{i}.{label}", PRELUDE + item + MAIN % {"ctor": ctor, "ty": name}, "bad"))
        for label, attrs in [("norepr", ["zero_copy"]), ("both", ["repr(C)", "zero_copy", "deep_copy"]), ("both-deepfirst", ["repr(C)", "deep_copy", "zero_copy"]),
                             ("both-deep-repr-zero", ["deep_copy", "repr(C)", "zero_copy"]), ("repru8", ["repr(u8)", "zero_copy"])]:
            item, ctor = enum_item(name, attrs, "Epserde, Clone, Copy, Debug", variants, "C")
            out.append((f"bad.{name}.attr.{label}", PRELUDE + item + MAIN % {"ctor": ctor, "ty": name}, "bad"))
    # generic zero-copy struct instantiated with a non-zero-copy argument
    gen = "#[derive(Epserde, Clone, Copy, Debug)]\n#[repr(C)]\n#[zero_copy]\npub struct GZ<A: ZeroCopy> { pub a: A, pub n: u8 }\n"
    out.append(("good.GZ.u32", PRELUDE + gen + MAIN % {"ctor": "GZ { a: 5u32, n: 1 }", "ty": "GZ<u32>"}, "good"))
    for label, ty, val, is_copy in BAD:
        if is_copy:
            out.append((f"bad.GZ.arg.{label}", PRELUDE + gen + MAIN % {"ctor": f"GZ {{ a: {val}, n: 1 }}", "ty": f"GZ<{ty}>"}, "bad"))
    # the same wrong type inside a PhantomData and as a field, in both orders
    for label, ty, val, is_copy in BAD:
        if not is_copy:
            continue
        for order in ("ph-first", "field-first"):
            fields = [("m", f"PhantomData<{ty}>", "PhantomData"), ("x", ty, val)]
            if order == "field-first":
                fields.reverse()
            item, ctor = struct_item("PX", ZC, "Epserde, Clone, Copy, Debug", fields, "named")
            out.append((f"bad.PX.{order}.{label}", PRELUDE + item + MAIN % {"ctor": ctor, "ty": "PX"}, "bad"))
    # second layer: a type whose impls are what the derive would generate for a wrongly declared
    # zero-copy struct if the compile-time layer were absent (declared Zero, IS_ZERO_COPY = false),
    # used alone and inside every zero-copy container
    for label, ty, ctor in HAND_CONTEXTS:
        if label in ("alone", "vec", "boxslice", "zero-struct-field", "generic-vec", "tuple2", "rangetoinclusive", "array"):
            out.append((f"bad.hand.{label}.ondrop", PRELUDE + HAND + MAIN_ONDROP % {"ctor": ctor, "ty": ty}, "bad"))
    for label, ty, ctor in HAND_CONTEXTS:
        # through the plain writer and through the schema-recording writer
        for entry, etag in (("serialize", ""), ("serialize_with_schema", ".schema")):
            out.append((f"bad.hand.{label}{etag}", PRELUDE + HAND + MAIN_HAND % {"ctor": ctor, "ty": ty, "entry": entry}, "bad"))
    # sequences of a fake zero-copy type
    fake = "#[derive(Epserde, Clone, Copy, Debug)]\n#[repr(C)]\n#[zero_copy]\npub struct F { pub s: &'static [u8] }\n"
    out.append(("bad.vec-of-fake", PRELUDE + fake + MAIN % {"ctor": "vec![F { s: &[1u8, 2] }]", "ty": "Vec<F>"}, "bad"))
    out.append(("bad.array-of-fake", PRELUDE + fake + MAIN % {"ctor": "[F { s: &[1u8, 2] }; 2]", "ty": "[F; 2]"}, "bad"))
    if tier == "quick":
        # quick: every mutation class once per base + all attribute probes; thorough: everything
        keep, seen = [], set()
        for pid, src, kind in out:
            cls = tuple(x for x in pid.split(".") if not x.startswith("f") or len(x) > 2)
            k = (pid.split(".")[1], pid.split(".")[-2] if pid.count(".") >= 3 else "", pid.split(".")[-1])
            if kind == "good" or ".attr." in pid or k not in seen or "fake" in pid or ".arg." in pid:
                keep.append((pid, src, kind))
                seen.add(k)
        out = keep
    return out


def main():
    tier = sys.argv[1] if len(sys.argv) > 1 else "quick"
    t0 = time.time()
    ext = P.build_libs()
    if ext is None:
        sys.exit(2)
    fam = family(tier)
    res = P.run_all(ext, [(pid, src) for pid, src, _ in fam], run=True)
    # the run-time layer must not depend on debug assertions: the hand-declared probes once more
    # against the library built in the release-like profile
    ext_rel = P.build_libs(profile="rel")
    if ext_rel is None:
        sys.exit(2)
    hand = [(pid + ".release", src, kind) for pid, src, kind in fam if pid.startswith("bad.hand.")]
    res_rel = P.run_all(ext_rel, [(pid, src) for pid, src, _ in hand], run=True, release=True)
    fam = fam + hand
    res = res + res_rel
    violations, outcomes, samples = [], {}, []
    nontrivial = 0
    for (pid, src, kind), r in zip(fam, res):
        if kind == "good":
            ok = r["compiled"] and r.get("stdout", "").startswith("OK")
            o = "control-ok" if ok else "control-broken"
            if not ok:
                sys.stderr.write(f"MACHINERY: positive control {pid} failed: {r['stderr'][-400:]} {r.get('stdout')}\n")
                sys.exit(2)
        elif not r["compiled"] and pid.startswith("bad.hand."):
            # the hand-declared probes bypass the compile-time layer by construction: if one does
            # not compile, the second layer is not being exercised by it
            sys.stderr.write(f"MACHINERY: hand-declared probe {pid} does not compile: {r['stderr'][-600:]}\n")
            sys.exit(2)
        elif not r["compiled"]:
            o = "rejected-at-compile-time:" + "+".join(r["errors"][:3])
            nontrivial += 1
        elif ".ondrop" in pid:
            out = r.get("stdout", "").strip()
            nontrivial += 1
            m = re.search(r"NEEDLE (\d+)", out)
            needle = int(m.group(1)).to_bytes(8, "little") if m else None
            sink = r.get("sink_file", b"")
            if needle is None:
                sys.stderr.write(f"MACHINERY: probe {pid} printed no needle: {out[:200]} {r.get('run_stderr', '')[:300]}\n")
                sys.exit(2)
            if needle in sink:
                o = "written-as-raw-memory-from-a-destructor-during-unwinding"
                violations.append((f"C17|{pid}|{o}", {"probe": pid, "observed": out, "exit": r.get("exit"), "sink_bytes": len(sink), "source": src}))
            elif "RETURNED" in out:
                o = "destructor-returned-without-writing-the-wrong-data"
            else:
                o = "aborted-before-any-byte-of-the-wrong-data"
        else:
            out = r.get("stdout", "").strip()
            nontrivial += 1
            if out.startswith("PANIC"):
                kv = dict(x.split("=") for x in out.split()[1:])
                if int(kv["sink"]) <= int(kv["header"]):
                    o = "compiled-but-panics-before-any-value-byte"
                elif kv.get("pointer_in_sink") == "false":
                    # bytes of the enclosing deep-copy structure (tags, lengths, other fields) may
                    # precede; no byte of the wrongly declared data has been written
                    o = "compiled-but-panics-before-any-byte-of-the-wrong-data"
                else:
                    o = "panics-after-writing-value-bytes"
                    violations.append((f"C17|{pid}|{o}", {"probe": pid, "observed": out, "source": src}))
            else:
                o = "serialized-as-raw-memory"
                violations.append((f"C17|{pid}|{o}", {"probe": pid, "observed": out, "source": src}))
        outcomes[o] = outcomes.get(o, 0) + 1
        if len(samples) < 4 and kind == "bad" and (len(samples) == 0 or r["compiled"]):
            samples.append({"probe": pid, "outcome": o, "definition": [l for l in src.splitlines() if "pub struct" in l or "pub enum" in l][-1]})
    cov = {"evaluations": len(fam), "distinct_nontrivial": nontrivial,
           "rule": "every bad definition derived from every valid zero-copy base (each field x each non-zero-copy replacement type, with and without Copy; attribute mutations; generic instantiation with a non-zero-copy argument; sequences of a fake zero-copy type), each compiled alone; non-trivial = a 'bad' probe (positive controls excluded)",
           "samples": samples, "exhaustive": True, "programs": len(fam), "outcomes": outcomes, "distinct_outcome_classes": len(outcomes)}
    ev, code = P.finish("C17", tier, "exploration", cov, violations, t0, ["probe family as generated by gen/c17.py", "x86_64 Linux; rustc of the pinned toolchain"])
    P.write_evidence("C17", ev)
    sys.stderr.write(f"C17 {tier}: probes={len(fam)} outcomes={outcomes} violations={ev['violations']} wall={ev['wall_s']:.1f}s\n")
    sys.exit(code)


if __name__ == "__main__":
    main()
