"""Common infrastructure for program-level (compile/run) probes: C05, C09(a), C17.

Every probe is a tiny crate compiled ALONE with rustc against the epserde rlib built from
/repo's current working tree (hooks on), optionally linked with the harness's vcore/udefs, and
optionally executed. Nothing is sampled: each check enumerates its whole probe family.
"""
import concurrent.futures as cf
import glob
import hashlib
import json
import os
import re
import shutil
import subprocess
import sys
import tempfile
import time

ROOT = "/verif"
H = os.path.join(ROOT, "harness")
TARGET = os.path.join(ROOT, "target")
ENV = dict(os.environ, CARGO_NET_OFFLINE="true", RUST_BACKTRACE="0")


LAST_BUILD_ERR = ""


def curated_defs_do_not_compile():
    """True if the last build_libs() failure is rustc rejecting the derive output for the curated
    definitions (crate udefs: only definitions of the supported grammar, which compile on the
    pinned tree) while epserde and its derive crate themselves build."""
    if "could not compile `udefs`" not in LAST_BUILD_ERR or "error[E" not in LAST_BUILD_ERR:
        return False
    p = subprocess.run(["cargo", "build", "-q", "-p", "vcore"], cwd=H, env=ENV, capture_output=True, text=True)
    return p.returncode == 0


def build_libs(profile=None):
    """Build epserde (+derive), vcore and udefs from the current tree; return extern paths."""
    global LAST_BUILD_ERR
    subprocess.run([sys.executable, os.path.join(ROOT, "gen/universe.py")], check=True, stdout=subprocess.DEVNULL)
    cmd = ["cargo", "build", "-q", "-p", "udefs", "--message-format=json"] + (["--profile", profile] if profile else [])
    p = subprocess.run(cmd, cwd=H, env=ENV, capture_output=True, text=True)
    if p.returncode != 0:
        # with --message-format=json the diagnostics are JSON lines on stdout
        rendered = []
        for line in p.stdout.splitlines():
            try:
                m = json.loads(line)
            except Exception:
                continue
            if m.get("reason") == "compiler-message" and m["message"].get("level") == "error":
                rendered.append(m["message"].get("rendered") or m["message"].get("message", ""))
        LAST_BUILD_ERR = "\n".join(rendered) + "\n" + p.stderr
        sys.stderr.write(LAST_BUILD_ERR[-3000:])
        sys.stderr.write("\nbuilding epserde/vcore/udefs failed\n")
        return None
    ext = {}
    for line in p.stdout.splitlines():
        try:
            m = json.loads(line)
        except Exception:
            continue
        if m.get("reason") != "compiler-artifact":
            continue
        name = m["target"]["name"]
        for f in m.get("filenames", []):
            if f.endswith(".rlib") or f.endswith(".so"):
                ext[name.replace("-", "_")] = f
    need = ["epserde", "vcore", "udefs", "serde_json", "maligned"]
    if not all(n in ext for n in need):
        sys.stderr.write(f"missing artifacts: {[n for n in need if n not in ext]}\n")
        return None
    ext["__deps__"] = os.path.join(TARGET, profile or "debug", "deps")
    return ext


def rustc_cmd(ext, src, out, extra_externs=("epserde",), cfgs=(), release=False):
    cmd = ["rustc", "--edition=2021", "--crate-type=bin", "-C", "debuginfo=0"] + (["-C", "opt-level=1", "-C", "debug-assertions=off", "-C", "overflow-checks=off"] if release else ["-C", "opt-level=0", "-C", "debug-assertions=on"]) + [
           "--cap-lints=allow", "--error-format=short", "--cfg", "epserde_verif",
           "-L", f"dependency={ext['__deps__']}", "--crate-name", "probe", "-o", out, src]
    for e in extra_externs:
        cmd += ["--extern", f"{e}={ext[e]}"]
    for c in cfgs:
        cmd += ["--cfg", c]
    return cmd


def compile_probe(ext, scratch, pid, source, externs=("epserde",), run=False, timeout=120, release=False):
    """Returns dict(id, compiled, errors=[codes], stderr, ran, exit, stdout)."""
    fname = re.sub(r"[^A-Za-z0-9_]", "_", pid)
    src = os.path.join(scratch, f"{fname}.rs")
    out = os.path.join(scratch, f"{fname}.bin")
    with open(src, "w") as f:
        f.write(source)
    p = subprocess.run(rustc_cmd(ext, src, out, externs, release=release), capture_output=True, text=True, env=ENV)
    res = {"id": pid, "compiled": p.returncode == 0, "stderr": p.stderr[-4000:], "errors": sorted(set(re.findall(r"error\[(E\d+)\]", p.stderr)))}
    if p.returncode != 0 and not res["errors"]:
        # derive panics and plain errors have no code
        if "proc-macro derive panicked" in p.stderr or "proc macro panicked" in p.stderr:
            res["errors"] = ["derive-panic"]
        else:
            res["errors"] = ["uncoded"]
    if res["compiled"] and run:
        try:
            def lim():
                import resource
                resource.setrlimit(resource.RLIMIT_AS, (12 << 30, 12 << 30))
            r = subprocess.run([out], capture_output=True, text=True, timeout=timeout, env=dict(ENV, VERIF_PROBE_SINK=os.path.join(scratch, f"{fname}.sink")), cwd=scratch, preexec_fn=lim)
            res.update(ran=True, exit=r.returncode, stdout=r.stdout[-200000:], run_stderr=r.stderr[-2000:])
            # a probe may leave a file "<name>.sink" behind (what it managed to write before dying)
            sink = os.path.join(scratch, f"{fname}.sink")
            if os.path.exists(sink):
                res["sink_file"] = open(sink, "rb").read()[:1 << 20]
                os.remove(sink)
        except subprocess.TimeoutExpired:
            res.update(ran=True, exit=-999, stdout="", run_stderr="timeout")
    try:
        os.remove(out)
    except FileNotFoundError:
        pass
    return res


def run_all(ext, probes, externs=("epserde",), run=False, jobs=16, release=False):
    """probes: list of (id, source). Returns list of results in the same order."""
    scratch = tempfile.mkdtemp(prefix="verif-probes-", dir="/dev/shm")
    try:
        with cf.ThreadPoolExecutor(max_workers=jobs) as ex:
            futs = [ex.submit(compile_probe, ext, scratch, pid, src, externs, run, 120, release) for pid, src in probes]
            return [f.result() for f in futs]
    finally:
        shutil.rmtree(scratch, ignore_errors=True)


def load_known(prop):
    out = {}
    try:
        for l in open(os.path.join(ROOT, "KNOWN_FINDINGS.txt")):
            l = l.strip()
            if l.startswith("known:") and " :: " in l:
                head, desc = l[6:].split(" :: ", 1)
                m = re.search(r"property=(\S+)\s+key=(.*)$", head.strip())
                if m and m.group(1) == prop:
                    out[m.group(2).strip()] = desc
    except FileNotFoundError:
        pass
    return out


def finish(prop, tier, level, coverage, violations, t0, assumptions, extra_known_printed=()):
    """violations: list of (key, detail dict). Applies the known-findings list, writes
    evidence and replay files, prints the verdict lines, returns the exit code."""
    known = load_known(prop)
    os.makedirs(os.path.join(ROOT, "evidence/replay"), exist_ok=True)
    for f in glob.glob(os.path.join(ROOT, f"evidence/replay/{prop}-P*.json")):
        os.remove(f)
    new = 0
    matched = []
    for n, (key, detail) in enumerate(violations):
        if key in known:
            matched.append(key)
            print(f"KNOWN-FINDING: property={prop} {known[key]} [{key}]")
            continue
        new += 1
        path = os.path.join(ROOT, f"evidence/replay/{prop}-P{n:04d}.json")
        d = dict(detail)
        d.update(check=prop, key=key, tier=tier)
        with open(path, "w") as f:
            json.dump(d, f, indent=1)
        print(f"VIOLATION property={prop} replay={path}")
        if new <= 30:
            sys.stderr.write(f"  violation {key}\n")
    coverage = dict(coverage)
    coverage["known_findings_matched"] = matched
    coverage["new_violations"] = new
    ev = {"property_id": prop, "tier": tier, "seed": int(os.environ.get("VERIF_SEED", "0") or 0), "level": level,
          "coverage": coverage, "assumptions": assumptions, "wall_s": time.time() - t0, "violations": new}
    return ev, (1 if new else 0)


def write_evidence(prop, ev):
    with open(os.path.join(ROOT, f"evidence/{prop}.json"), "w") as f:
        json.dump(ev, f, indent=1)
