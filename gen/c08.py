#!/usr/bin/env python3
"""C08 driver: the runner's loader sweep + the loom schedule exploration (+ the no-mmap feature build)."""
import json, os, subprocess, sys, time
ENV = dict(os.environ, CARGO_NET_OFFLINE="true", RUST_BACKTRACE="0")

def main():
    tier = sys.argv[1] if len(sys.argv) > 1 else "quick"
    t0 = time.time()
    r = subprocess.run(["/verif/bin/check", "C08-runner", tier], cwd="/verif")
    if r.returncode not in (0, 1):
        sys.exit(2)
    ev = json.load(open("/verif/evidence/C08.json"))
    viol = ev.get("violations", 0)
    for pkg in ("loom_memcase", "nommap"):  # separately: nommap must not get the mmap feature through unification
        b = subprocess.run(["cargo", "build", "-q", "-p", pkg], cwd="/verif/harness", env=ENV, capture_output=True, text=True)
        if b.returncode != 0:
            sys.stderr.write(b.stderr[-2000:] + f"\n{pkg} build failed\n")
            sys.exit(2)
    c = ev["coverage"]
    # schedules
    l = subprocess.run(["/verif/target/debug/loom_memcase", tier], capture_output=True, text=True, env=ENV)
    os.makedirs("/verif/evidence/replay", exist_ok=True)
    if l.returncode != 0:
        path = "/verif/evidence/replay/C08-loom.json"
        json.dump({"check": "C08", "class": "schedule-exploration-failed", "observed": (l.stderr or "")[-3000:], "stdout": l.stdout[-1000:]}, open(path, "w"), indent=1)
        print(f"VIOLATION property=C08 replay={path}")
        viol += 1
        c["schedules"] = {"failed": True}
    else:
        lj = json.loads(l.stdout.strip().splitlines()[-1])
        c["schedules"] = lj
        c["evaluations"] += lj["schedules"]
    # feature configuration without mmap
    n = subprocess.run(["/verif/target/debug/nommap"], capture_output=True, text=True, env=ENV)
    if n.returncode not in (0, 1):
        sys.stderr.write("nommap crashed: " + n.stderr[-1000:] + "\n")
        path = "/verif/evidence/replay/C08-nommap.json"
        json.dump({"check": "C08", "class": "no-mmap-configuration-crashed", "observed": n.stderr[-3000:]}, open(path, "w"), indent=1)
        print(f"VIOLATION property=C08 replay={path}")
        viol += 1
    else:
        nj = json.loads(n.stdout.strip().splitlines()[-1])
        c["feature_config_no_mmap"] = {k: v for k, v in nj.items() if k != "violations"}
        c["evaluations"] += nj["cases"]
        for k, v in enumerate(nj["violations"]):
            path = f"/verif/evidence/replay/C08-nommap-{k}.json"
            json.dump(dict(v, check="C08"), open(path, "w"), indent=1)
            print(f"VIOLATION property=C08 replay={path}")
            viol += 1
    # type-level half of "can be sent to other threads": auto-trait probes
    sys.path.insert(0, "/verif/gen")
    import probes as P
    ext = P.build_libs()
    if ext is None:
        sys.exit(2)
    PRE = "#![allow(dead_code, unused_imports)]\nuse epserde::prelude::*;\nuse std::rc::Rc;\nuse std::cell::Cell;\nfn need_send<T: Send>() {}\nfn need_sync<T: Sync>() {}\n"
    fam = [
        ("pos.vec-send-sync", PRE + "fn main() { need_send::<MemCase<Vec<u8>>>(); need_sync::<MemCase<Vec<u8>>>(); need_send::<MemCase<&'static [u64]>>(); need_sync::<MemCase<&'static [u64]>>(); }", True),
        ("pos.boxed-moved-to-thread", PRE + "fn main() { let c = Box::new(MemCase::encase(vec![1u8, 2])); std::thread::spawn(move || { assert_eq!(c.len(), 2); }).join().unwrap(); }", True),
        ("neg.rc-not-send", PRE + "fn main() { need_send::<MemCase<Rc<u8>>>(); }", False),
        ("neg.rc-not-sync", PRE + "fn main() { need_sync::<MemCase<Rc<u8>>>(); }", False),
        ("neg.cell-not-sync", PRE + "fn main() { need_sync::<MemCase<Cell<u8>>>(); }", False),
        ("neg.raw-pointer-not-send", PRE + "fn main() { need_send::<MemCase<*const u8>>(); }", False),
        ("neg.rc-into-thread", PRE + "fn main() { let c = MemCase::encase(Rc::new(5u8)); std::thread::spawn(move || { let _ = **c; }).join().unwrap(); }", False),
        ("neg.cell-shared-across-threads", PRE + "fn main() { let c = MemCase::encase(Cell::new(5u8)); std::thread::scope(|s| { s.spawn(|| c.set(6)); }); }", False),
    ]
    res = P.run_all(ext, [(i, src) for i, src, _ in fam], run=False)
    auto = {}
    for (pid, src, must), r in zip(fam, res):
        ok = r["compiled"] == must and (must or set(r["errors"]) & {"E0277"})
        auto[pid] = "ok" if ok else "WRONG"
        if not ok:
            if must:
                sys.stderr.write(f"MACHINERY: positive auto-trait probe {pid} does not compile: {r['stderr'][-500:]}\n")
                sys.exit(2)
            path = f"/verif/evidence/replay/C08-autotrait-{pid}.json"
            json.dump({"check": "C08", "class": "memcase-auto-trait-too-permissive", "probe": pid, "source": src, "observed": "compiles" if r["compiled"] else r["stderr"][-800:]}, open(path, "w"), indent=1)
            print(f"VIOLATION property=C08 replay={path}")
            viol += 1
    c["auto_trait_probes"] = auto
    c["evaluations"] += len(fam)
    c["rule"] = ("every type of the universe x first/last values x loaders {load_full, load_mem, load_mmap, mmap} x flag sets, with operation histories on the loaded case; "
                 "loom: all interleavings (up to the preemption bound) of Arc/channel/join ownership operations over a real loaded MemCase for 3 loaders x 3 sharing shapes; "
                 "feature configuration std,derive (no mmap): store/load_full/load_mem on a hand-written type set")
    ev["violations"] = viol
    ev["wall_s"] = time.time() - t0
    json.dump(ev, open("/verif/evidence/C08.json", "w"), indent=1)
    sys.stderr.write(f"C08 {tier}: runner+loom+nommap violations={viol} schedules={c.get('schedules', {}).get('schedules')}\n")
    sys.exit(1 if viol else 0)

main()
