#!/usr/bin/env python3
"""C04: near-miss mutants of derived definitions.

For every base definition, generate ALL single-step near-miss mutants (one field renamed, two
fields swapped, one field type replaced by a same-size type, copy kind toggled, const value /
name changed, variant renamed / swapped, field moved between variants, repr(align) added or
changed, type renamed, sequence kind / array length / tuple arity changed, string kind changed,
generic argument changed). Every definition lives in its own module, so mutants keep the same
type identifier. Emits harness/mutdefs/src/lib.rs.
"""
import copy
import json
import os
import sys

sys.path.insert(0, os.path.dirname(os.path.abspath(__file__)))
import defs as D
from universe import write_if_changed, PRELUDE, H

P, V = D.Param, D.Variant
ZC = ("repr(C)", "zero_copy")

SAME_SIZE = {"u32": ["i32", "f32", "[u8; 4]", "char"], "u64": ["usize", "i64", "f64", "[u32; 2]"], "u16": ["i16", "[u8; 2]"], "u8": ["i8", "bool"],
             "Vec<u16>": ["Box<[u16]>", "Vec<i16>", "Vec<u8>"], "String": ["Box<str>", "Vec<u8>"], "[u16; 2]": ["[u16; 3]", "[u16; 1]", "(u16, u16)", "Vec<u16>", "[i16; 2]"],
             "(u16, u16)": ["(u16, u16, u16)", "(u16,)", "[u16; 2]"], "Option<u32>": ["Option<i32>", "Bound<u32>"], "[u8; N]": ["[u8; 3]", "[i8; N]"]}


def bases():
    return [
        ("ds", D.S("X", [("a", "u32"), ("b", "u64"), ("c", "Vec<u16>"), ("d", "String")])),
        ("dt", D.S("X", [("0", "u16"), ("1", "(u16, u16)"), ("2", "Option<u32>")], style="tuple")),
        ("zs", D.S("X", [("a", "u8"), ("b", "u32"), ("c", "[u16; 2]")], ZC)),
        ("zt", D.S("X", [("0", "u64"), ("1", "u16")], ZC, style="tuple")),
        ("de", D.E("X", [V("U", "unit", []), V("T", "tuple", [("0", "u32"), ("1", "String")]), V("S", "named", [("x", "u64"), ("y", "Vec<u16>")])])),
        ("ze", D.E("X", [V("A", "unit", []), V("B", "tuple", [("0", "u16")]), V("C", "named", [("x", "u8"), ("y", "u64")])], ZC)),
        ("dg", D.S("X", [("a", "A"), ("n", "u32"), ("b", "B")], params=[P("A", "field"), P("B", "field")])),
        ("dc", D.S("X", [("arr", "[u8; N]"), ("t", "u16")], params=[P("N", "const")])),
        ("dn", D.S("X", [("n", "u32"), ("s", "f64"), ("ss", "f64"), ("row", "u16"), ("scale", "u16")])),
        ("zn", D.S("X", [("n", "u32"), ("s", "f64"), ("ss", "f64")], ZC)),
        # wide items: the hash streams are longer than 128 / 256 bytes and every field sits at a different offset of them
        ("dw", D.S("X", [(f"f{i:02d}", "u32") for i in range(24)])),
        ("zw", D.S("X", [(f"f{i:02d}", "u32") for i in range(24)], ZC)),
        ("ew", D.E("X", [V(f"V{i:02d}", "tuple", [("0", "u32")]) for i in range(20)])),
        ("zc", D.S("X", [("arr", "[u8; N]"), ("t", "u16")], ZC, params=[P("N", "const")])),
    ]


KEYWORDS = {"as", "in", "if", "fn", "do", "for", "let", "mod", "pub", "ref", "use", "dyn", "mut", "box", "try", "else", "enum", "impl", "loop", "self", "true", "type", "move", "match", "where", "while", "yield", "false", "super", "trait", "crate", "const", "async", "await", "break", "macro", "union", "final", "return", "static", "struct", "unsafe", "extern", "typeof", "unsized", "virtual", "abstract", "become", "continue", "override", "priv"}


def mutate(d):
    """All single-step near-miss mutants of a definition: [(label, Def)]."""
    out = []

    def clone():
        return copy.deepcopy(d)

    # type renamed
    m = clone(); m.name = "Y"; out.append(("rename-type", m))
    # copy kind toggled (repr(C) kept where present)
    if d.zero:
        m = clone(); m.attrs = [a for a in m.attrs if a != "zero_copy"]; out.append(("zero-to-plain", m))
        m = clone(); m.attrs = [a if a != "zero_copy" else "deep_copy" for a in m.attrs]; out.append(("zero-to-deep", m))
        for n in (2, 16, 64):
            m = clone(); m.attrs = ["repr(C)", f"repr(align({n}))", "zero_copy"]; out.append((f"align{n}", m))
    else:
        all_zero_ok = all(t in ("u8", "u16", "u32", "u64", "[u16; 2]", "(u16, u16)", "[u8; N]") for v in d.variants for _, t in v.fields) and not any(p.kind != "const" for p in d.params)
        m = clone(); m.attrs = ["deep_copy"]; out.append(("plain-to-deepattr", m))
        m = clone(); m.attrs = ["repr(C)"]; out.append(("plain-to-reprc", m))
        if all_zero_ok:
            m = clone(); m.attrs = list(ZC); out.append(("plain-to-zero", m))
    # consts
    for i, p in enumerate(d.params):
        if p.kind == "const":
            m = clone(); m.params[i].name = "M"
            for v in m.variants:
                v.fields = [(n, t.replace("; N]", "; M]")) for n, t in v.fields]
            out.append(("const-renamed", m))
    # fields
    for vi, v in enumerate(d.variants):
        for fi, (fn, ft) in enumerate(v.fields):
            if v.style == "named":
                m = clone(); m.variants[vi].fields[fi] = (fn + "_r", ft); out.append((f"v{vi}f{fi}-renamed", m))
            for nt in SAME_SIZE.get(ft, []):
                if nt == "B" and not any(p.name == "B" for p in d.params):
                    continue
                if d.zero and nt in ("Vec<u16>", "Box<[u16]>", "Vec<u8>"):
                    continue
                m = clone(); m.variants[vi].fields[fi] = (fn, nt)
                out.append((f"v{vi}f{fi}-type-{nt.replace(' ', '').replace('<', '_').replace('>', '_').replace('[', '_').replace(']', '_').replace(';', 'x').replace(',', '_').replace('(', '_').replace(')', '_')}", m))
        for fi in range(len(v.fields) - 1):
            if v.style == "named" and v.fields[fi][1] != v.fields[fi + 1][1]:
                # the two types exchanged, names kept
                m = clone()
                fs = m.variants[vi].fields
                fs[fi], fs[fi + 1] = (fs[fi][0], fs[fi + 1][1]), (fs[fi + 1][0], fs[fi][1])
                out.append((f"v{vi}-typeswap{fi}", m))
            if v.style == "named":
                # a rename that moves one character across the boundary of two adjacent names
                a, b = v.fields[fi][0], v.fields[fi + 1][0]
                names = [f[0] for f in v.fields]
                if (len(b) > 1 and not a.startswith("r#") and not b.startswith("r#") and (b[1].isalpha() or b[1] == "_") and b[1:] != "_"
                        and b[1:] not in KEYWORDS and a + b[0] not in names and b[1:] not in names):
                    m = clone()
                    m.variants[vi].fields[fi] = (a + b[0], v.fields[fi][1])
                    m.variants[vi].fields[fi + 1] = (b[1:], v.fields[fi + 1][1])
                    out.append((f"v{vi}-boundary{fi}", m))
            m = clone()
            fs = m.variants[vi].fields
            if v.style == "tuple":
                # positional: swap the types
                fs[fi], fs[fi + 1] = (fs[fi][0], fs[fi + 1][1]), (fs[fi + 1][0], fs[fi][1])
            else:
                fs[fi], fs[fi + 1] = fs[fi + 1], fs[fi]
            out.append((f"v{vi}-swap{fi}", m))
    if d.kind == "enum":
        for vi, v in enumerate(d.variants):
            m = clone(); m.variants[vi].name = v.name + "r"; out.append((f"variant{vi}-renamed", m))
        for vi in range(len(d.variants) - 1):
            m = clone(); m.variants[vi], m.variants[vi + 1] = m.variants[vi + 1], m.variants[vi]; out.append((f"variants-swap{vi}", m))
            # move the last field of variant vi+1 to variant vi (same style only)
            a, b = d.variants[vi], d.variants[vi + 1]
            if b.fields and a.style == b.style and a.style != "unit":
                m = clone()
                f = m.variants[vi + 1].fields.pop()
                idx = len(m.variants[vi].fields)
                m.variants[vi].fields.append((str(idx) if a.style == "tuple" else f[0] + "m", f[1]))
                out.append((f"field-moved{vi}", m))
        m = clone(); m.variants.append(V("Extra", "unit", [])); out.append(("variant-added", m))
    else:
        v = d.variants[0]
        if v.style != "unit":
            m = clone(); m.variants[0].fields.append((str(len(v.fields)) if v.style == "tuple" else "extra", "u8")); out.append(("field-added", m))
            if len(v.fields) > 1:
                m = clone(); m.variants[0].fields.pop(); out.append(("field-removed", m))
    # every parameter must still be used
    def used(m):
        for p in m.params:
            pat = p.name
            if not any(pat == t.strip() or f"; {pat}]" in t or f"<{pat}>" in t for v in m.variants for _, t in v.fields):
                return False
        return True
    return [(l, m) for l, m in out if used(m)]


# instantiation arguments per base: [(args exprs, label)]
ARGS = {
    "dg": [(["i32", "String"], "a0"), (["u32", "String"], "a00"), (["Vec<u16>", "String"], "a1"), (["Vec<i16>", "String"], "a2"), (["Box<[u16]>", "String"], "a3"), (["String", "Vec<u16>"], "a4"), (["Vec<u16>", "Box<str>"], "a5")],
    "dc": [(["2"], "n2"), (["3"], "n3")],
    "zc": [(["2"], "n2"), (["3"], "n3")],
}

WRAPPERS = ["{}", "Vec<{}>", "Option<{}>", "Bound<{}>", "[{}; 2]", "Box<[{}]>", "ControlFlow<u8, {}>", "udefs::G1<{}>"]
ZWRAPPERS = ["({},)", "({}, {})", "RangeTo<{}>", "Vec<RangeTo<{}>>", "udefs::ZG<{}>"]


def emit():
    s = PRELUDE + "use vcore::model::*;\n\n"
    reg = []
    count = 0
    for bname, base in bases():
        fam = [("base", base)] + mutate(base)
        for label, d in fam:
            mod = f"{bname}_{count}"
            count += 1
            s += f"pub mod {mod} {{\n    use super::*;\n"
            s += "    " + d.item().replace("\n", "\n    ") + "\n"
            s += "    " + d.dom_impl().replace("\n", "\n    ") + "\n"
            s += "    " + d.eps_impl().replace("\n", "\n    ") + "\n}\n"
            tparams = [p for p in d.params]
            argsets = ARGS.get(bname, [([], "")]) if tparams else [([], "")]
            for args, alabel in argsets:
                ty = f"{mod}::{d.name}" + (f"<{', '.join(args)}>" if args else "")
                wr = list(WRAPPERS) + (ZWRAPPERS if d.zero else [])
                if bname in ("dg",):
                    wr = ["{}", "Vec<{}>", "Option<{}>"]
                if bname in ("dw", "zw", "ew"):
                    wr = ["{}"]
                # (the C04 runner — quick universe plus all mutants — sits at the linker's 2 GiB reach:
                # the two name-collision bases get the wrappers that matter for them only)
                if bname == "dn":
                    wr = ["{}", "Vec<{}>"]
                if bname == "zn":
                    wr = ["{}", "Bound<{}>"] + (["RangeTo<{}>", "Vec<RangeTo<{}>>"] if d.zero else [])
                for w in wr:
                    full = w.replace("{}", ty)
                    wl = w.replace("{}", "_").replace(" ", "")
                    reg.append((f"{bname}|{wl}", f"{bname}.{label}{('.' + alabel) if alabel else ''}|{wl}", full))
    write_if_changed(os.path.join(H, "mutdefs/src/lib.rs"), s)
    write_if_changed(os.path.join(H, "mutdefs/Cargo.toml"), """[package]
name = "mutdefs"
version = "0.1.0"
edition = "2021"

[dependencies]
vcore = { path = "../vcore" }
udefs = { path = "../udefs" }
epserde = { workspace = true }
""")
    NR = 16
    for k in range(NR):
        r = PRELUDE + "use mutdefs::*;\n\npub fn register(v: &mut Vec<(&'static str, &'static str, vcore::Entry)>) {\n"
        for j, (fam, mid, ty) in enumerate(reg):
            if j % NR == k:
                r += f"    v.push(({json.dumps(fam)}, {json.dumps(mid)}, vcore::entry::<{ty}>({json.dumps(mid)})));\n"
        r += "}\n"
        write_if_changed(os.path.join(H, f"mr{k:02d}/src/lib.rs"), r)
        write_if_changed(os.path.join(H, f"mr{k:02d}/Cargo.toml"), f"""[package]
name = "mr{k:02d}"
version = "0.1.0"
edition = "2021"

[dependencies]
vcore = {{ path = "../vcore" }}
udefs = {{ path = "../udefs" }}
mutdefs = {{ path = "../mutdefs" }}
epserde = {{ workspace = true }}
""")
    allr = "// @generated\npub fn all() -> Vec<(&'static str, &'static str, vcore::Entry)> {\n    let mut v = Vec::new();\n"
    for k in range(NR):
        allr += f"    mr{k:02d}::register(&mut v);\n"
    allr += "    v\n}\n"
    write_if_changed(os.path.join(H, "runner/src/mutants.rs"), allr)
    return len(reg), count


if __name__ == "__main__":
    print(emit())
