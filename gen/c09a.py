#!/usr/bin/env python3
"""C09(a): borrowed results cannot outlive what they borrow from — a generated family of
safe client programs per owner x access path x escape route x structure shape. Each probe
is compiled alone; it MUST NOT compile (borrow-check / lifetime error). Every negative probe
has a positive twin (same program without the escape) that MUST compile, so that a broken
scaffold cannot pass vacuously.

Used as a library by bin/check_C09 (which merges the result with the runner's C09 b/c part).
"""
import os
import sys
import time

sys.path.insert(0, os.path.dirname(os.path.abspath(__file__)))
import probes as P

PRELUDE = """#![allow(dead_code, unused_imports, unused_variables, unused_mut, non_camel_case_types)]
use epserde::prelude::*;
use maligned::A16;

#[derive(Epserde, Clone, Debug)]
pub struct G<A> { pub id: u32, pub data: A }

#[derive(Epserde, Clone, Copy, Debug)]
#[repr(C)]
#[zero_copy]
pub struct Pz { pub a: u8, pub b: u64 }

fn path(tag: &str) -> std::path::PathBuf { let mut p = std::env::temp_dir(); p.push(format!("verif-probe-{}-{}", std::process::id(), tag)); p }
fn bytes_of<T: Serialize>(v: &T) -> Vec<u8> { let mut c = <AlignedCursor<A16>>::new(); v.serialize(&mut c).unwrap(); c.as_bytes().to_vec() }
fn sink<X: core::fmt::Debug>(x: X) { if std::env::var("NEVER_SET_VERIF").is_ok() { println!("{:?}", x); } }
"""

# shapes: name -> (type T, value expr, borrowed type with lifetime placeholder {lt}, extraction from `r` (a DeserType value or &DeserType))
SHAPES = {
    "slice": ("Vec<u64>", "vec![1u64, 2, 3]", "&{lt} [u64]", {"deref": "*{c}", "asref": "*{c}.as_ref()", "reborrow": "&**{c}", "iter": "{c}.iter()"}),
    "str": ("String", "String::from(\"hello\")", "&{lt} str", {"deref": "*{c}", "asref": "*{c}.as_ref()", "reborrow": "&**{c}", "iter": "{c}.chars()"}),
    "gen": ("G<Vec<u64>>", "G { id: 1, data: vec![1u64, 2, 3] }", "&{lt} [u64]", {"deref": "(*{c}).data", "asref": "{c}.as_ref().data", "reborrow": "&*{c}.data", "iter": "{c}.data.iter()"}),
    "zref": ("Pz", "Pz { a: 1, b: 2 }", "&{lt} Pz", {"deref": "*{c}", "asref": "*{c}.as_ref()", "reborrow": "&**{c}", "iter": "&{c}.b"}),
}

LOADERS = {
    "load_mem": "<{T}>::load_mem(&p).unwrap()",
    "load_mmap": "<{T}>::load_mmap(&p, Flags::empty()).unwrap()",
    "mmap": "<{T}>::mmap(&p, Flags::empty()).unwrap()",
}


def memcase_probe(loader, shape, access, escape):
    T, val, bty, acc = SHAPES[shape]
    load = LOADERS[loader].format(T=T)
    ext = acc[access].format(c="case")
    setup = f"    let p = path(\"{loader}\");\n    ({val}).store(&p).unwrap();\n"
    if escape == "scope":
        body = f"""fn get() -> impl core::fmt::Debug {{
    let p = path("{loader}");
    ({val}).store(&p).unwrap();
    let case = {load};
    let s = {ext};
    s
}}
fn main() {{ let s = get(); sink(s); }}
"""
        twin = f"fn main() {{\n{setup}    let case = {load};\n    let s = {ext};\n    sink(s);\n}}\n"
    elif escape == "drop":
        body = f"fn main() {{\n{setup}    let case = {load};\n    let s = {ext};\n    drop(case);\n    sink(s);\n}}\n"
        twin = f"fn main() {{\n{setup}    let case = {load};\n    let s = {ext};\n    sink(s);\n    drop(case);\n}}\n"
    elif escape == "thread":
        body = f"fn main() {{\n{setup}    let case = {load};\n    let s = {ext};\n    let h = std::thread::spawn(move || sink(s));\n    drop(case);\n    h.join().unwrap();\n}}\n"
        twin = f"fn main() {{\n{setup}    let case = {load};\n    let s = {ext};\n    std::thread::scope(|sc| {{ sc.spawn(|| sink(s)); }});\n    drop(case);\n}}\n"
    elif escape == "store":
        body = f"fn main() {{\n    let mut keep = Vec::new();\n    {{\n{setup}        let case = {load};\n        keep.push({ext});\n    }}\n    sink(keep);\n}}\n"
        twin = f"fn main() {{\n{setup}    let case = {load};\n    let mut keep = Vec::new();\n    keep.push({ext});\n    sink(keep);\n}}\n"
    else:
        raise ValueError(escape)
    return PRELUDE + body, PRELUDE + twin


def buffer_probe(owner, shape, escape):
    """Plain deserialize_eps on a Vec<u8> / AlignedCursor / encase of a borrowed structure."""
    T, val, bty, acc = SHAPES[shape]
    if owner == "vec":
        mk = f"let mut buf: Vec<u8> = bytes_of(&({val}));"
        de = f"<{T}>::deserialize_eps(&buf).unwrap()"
        own = "buf"
        mutate = "buf[0] = 1;"
    elif owner == "cursor":
        mk = f"let mut buf = <AlignedCursor<A16>>::new(); ({val}).serialize(&mut buf).unwrap();"
        de = f"<{T}>::deserialize_eps(buf.as_bytes()).unwrap()"
        own = "buf"
        mutate = "buf.set_position(0); std::io::Write::write_all(&mut buf, &[1]).unwrap();"
    else:  # encase
        mk = f"let mut buf: Vec<u8> = bytes_of(&({val}));"
        de = f"MemCase::encase(<{T}>::deserialize_eps(&buf).unwrap())"
        own = "buf"
        mutate = "buf[0] = 1;"
    use = {"slice": "sink(&r)", "str": "sink(&r)", "gen": "sink(&r)", "zref": "sink(&r)"}[shape]
    if owner == "encase":
        use = "sink(&*r)"
    if escape == "scope":
        body = f"fn main() {{\n    let r;\n    {{\n        {mk}\n        r = {de};\n    }}\n    {use};\n}}\n"
    elif escape == "drop":
        body = f"fn main() {{\n    {mk}\n    let r = {de};\n    drop({own});\n    {use};\n}}\n"
    elif escape == "move":
        body = f"fn main() {{\n    {mk}\n    let r = {de};\n    let moved = {own};\n    {use};\n    sink(moved.len());\n}}\n"
    elif escape == "mutate":
        body = f"fn main() {{\n    {mk}\n    let r = {de};\n    {mutate}\n    {use};\n}}\n"
    elif escape == "thread":
        body = f"fn main() {{\n    {mk}\n    let r = {de};\n    let h = std::thread::spawn(move || {{ {use}; }});\n    h.join().unwrap();\n}}\n"
    elif escape == "return":
        body = f"fn get<'a>() -> impl core::fmt::Debug + 'a {{\n    {mk}\n    let r = {de};\n    r\n}}\nfn main() {{ sink(get()); }}\n"
    else:
        raise ValueError(escape)
    twin = f"fn main() {{\n    {mk}\n    let r = {de};\n    {use};\n    sink({own}.len());\n}}\n"
    return PRELUDE + body, PRELUDE + twin


BORROWCK = {"E0505", "E0597", "E0515", "E0506", "E0716", "E0521", "E0502", "E0499", "E0382", "E0373", "E0712", "E0713", "E0310", "E0700", "E0594", "E0596", "E0503", "E0507"}


def family(tier):
    fam = []  # (id, negative source, twin source)
    for loader in LOADERS:
        for shape in SHAPES:
            for access in ["deref", "asref", "reborrow", "iter"]:
                for escape in ["scope", "drop", "thread", "store"]:
                    if tier == "quick" and loader != "mmap" and (shape not in ("slice", "gen") or access in ("asref",)):
                        continue
                    neg, twin = memcase_probe(loader, shape, access, escape)
                    fam.append((f"memcase.{loader}.{shape}.{access}.{escape}", neg, twin))
    # mutable access to the structure inside a case: exchanging the structures of two cases (the
    # backends stay) or moving one out would let a structure outlive its memory in safe code
    for loader in LOADERS:
        for shape in (["slice", "gen"] if tier == "quick" else list(SHAPES)):
            T, val, bty, acc = SHAPES[shape]
            load = LOADERS[loader].format(T=T)
            setup = f"    let p = path(\"{loader}\");\n    ({val}).store(&p).unwrap();\n"
            twin = PRELUDE + f"fn main() {{\n{setup}    let a = {load};\n    let b = {load};\n    sink(&*a);\n    drop(b);\n    drop(a);\n}}\n"
            for how, stmt in [("swap-derefmut", "core::mem::swap(&mut *a, &mut *b);"), ("swap-asmut", "core::mem::swap(AsMut::as_mut(&mut a), AsMut::as_mut(&mut b));")]:
                neg = PRELUDE + f"fn main() {{\n{setup}    let mut a = {load};\n    let mut b = {load};\n    {stmt}\n    drop(b);\n    sink(&*a);\n}}\n"
                fam.append((f"memcase.{loader}.{shape}.mutable.{how}", neg, twin))
    for owner in ["vec", "cursor", "encase"]:
        for shape in SHAPES:
            for escape in ["scope", "drop", "move", "mutate", "thread", "return"]:
                neg, twin = buffer_probe(owner, shape, escape)
                fam.append((f"buffer.{owner}.{shape}.{escape}", neg, twin))
    return fam


def run(tier, ext):
    """Returns (violations, coverage dict, machinery_error or None)."""
    fam = family(tier)
    probes = []
    twins = {}
    for pid, neg, twin in fam:
        probes.append((pid, neg))
        key = twin
        if key not in twins:
            twins[key] = f"twin.{len(twins)}"
            probes.append((twins[key], twin))
    res = {r["id"]: r for r in P.run_all(ext, probes, externs=("epserde", "maligned"), run=False)}
    violations, outcomes, samples = [], {}, []
    for pid, neg, twin in fam:
        t = res[twins[twin]]
        if not t["compiled"]:
            return None, None, f"positive twin of {pid} does not compile: {t['stderr'][-600:]}"
        r = res[pid]
        if r["compiled"]:
            o = "escape-compiles"
            violations.append((f"C09|{pid}|escape-compiles", {"probe": pid, "observed": "the program compiles: the borrowed data can outlive (or be used after) its owner in safe code", "source": neg.split('fn sink')[1].split('\n', 2)[2] if 'fn sink' in neg else neg}))
        else:
            codes = set(r["errors"])
            if codes & BORROWCK:
                o = "rejected:" + "+".join(sorted(codes & BORROWCK))
            elif ".mutable." in pid and codes & {"E0277", "E0599", "E0308"}:
                o = "rejected:no-mutable-access:" + "+".join(sorted(codes))
            else:
                return None, None, f"probe {pid} fails for a reason other than borrow checking: {r['stderr'][-600:]}"
        outcomes[o] = outcomes.get(o, 0) + 1
        if len(samples) < 3 and (not r["compiled"]) and len(samples) == len([s for s in samples]):
            if pid.endswith(".drop") and len(samples) < 3:
                samples.append({"probe": pid, "outcome": o, "program": [l.strip() for l in neg.split("fn main()")[-1].splitlines() if l.strip()][:8]})
    cov = {"probe_programs": len(fam), "positive_twins": len(twins), "probe_outcomes": outcomes, "probe_samples": samples}
    return violations, cov, None


if __name__ == "__main__":
    tier = sys.argv[1] if len(sys.argv) > 1 else "quick"
    ext = P.build_libs()
    v, cov, err = run(tier, ext)
    print(err or cov)
    for k, d in (v or []):
        print(k)
