#!/usr/bin/env python3
"""C05: derived implementations are correct for every user type in the grammar.

Enumerates, exhaustively up to the stated arities, struct/enum definitions over field-type
classes, attributes, parameter kinds, bounds and defaults; for every definition emits the Rust
item, the harness binding (model term, value enumeration, ε-view: all computed by the
generator's OWN implementation of the documented rules) and one or more instantiations with a
compile-time ascription of the expected ε-copy type. Definitions are compiled in batches with
rustc (a failing batch is recompiled one definition at a time to name the offender) and every
instantiation is run through the C01/C02/C03/C06/C07 oracles.
"""
import itertools
import json
import os
import sys
import time

sys.path.insert(0, os.path.dirname(os.path.abspath(__file__)))
import defs as D
import probes as P

Param, Variant, Def = D.Param, D.Variant, D.Def

# field type classes of deep-copy items: class -> (type expr, params it needs)
DEEP_CLASSES = {
    "prim": ("u32", []), "zstruct": ("P1", []), "dstruct": ("D1", []), "zseq": ("Vec<u16>", []), "dseq": ("Vec<String>", []),
    "string": ("String", []), "option": ("Option<u64>", []), "zst": ("()", []), "arr": ("[u8; 2]", []),
    "pA": ("A", ["A"]), "pB": ("B", ["B"]), "vI": ("Vec<I>", ["I"]), "aI": ("[I; 2]", ["I"]), "oI": ("Option<I>", ["I"]),
    "nI": ("G1<I>", ["I"]), "cfI": ("ControlFlow<u16, I>", ["I"]), "g2I": ("G2<u8, Vec<I>>", ["I"]), "ph": ("PhantomData<Q>", ["Q"]), "cN": ("[u16; N]", ["N"]),
    # the internal parameter inside types that are not plain paths (tuples, nested arrays, boxed slices, ranges)
    "tI": ("(I, I)", ["I"]), "t1I": ("(I,)", ["I"]), "bI": ("Box<[I]>", ["I"]), "rI": ("core::ops::RangeTo<I>", ["I"]), "aaI": ("[[I; 2]; 1]", ["I"]),
    "ovI": ("Option<Vec<I>>", ["I"]), "vtI": ("Vec<(I, I)>", ["I"]), "bdI": ("core::ops::Bound<I>", ["I"]),
}
# classes in which the internal parameter must be zero-copy (tuples and ranges are zero-copy only)
ZERO_ONLY_I = {"tI", "t1I", "rI", "vtI"}
NONPATH_I = ["tI", "t1I", "bI", "rI", "aaI", "ovI", "vtI", "bdI"]
ZERO_CLASSES = {
    "u8": ("u8", []), "prim": ("u32", []), "u64": ("u64", []), "f64": ("f64", []), "zstruct": ("P1", []), "zst": ("()", []), "arr": ("[u16; 3]", []),
    "tup": ("(u16, u16)", []), "pA": ("A", ["A"]), "ph": ("PhantomData<Q>", ["Q"]), "cN": ("[u8; N]", ["N"]), "zenum": ("EU", []),
}

# ε-copy expected types of the leaf classes and of the arguments used for instantiation
EPS = {"u32": "u32", "u8": "u8", "u64": "u64", "f64": "f64", "P1": "&'a P1", "Vec<u32>": "&'a [u32]", "String": "&'a str", "Vec<String>": "Vec<&'a str>",
       "u16": "u16", "Vec<Vec<u16>>": "Vec<&'a [u16]>", "D1": "D1", "Option<Vec<u64>>": "Option<&'a [u64]>",
       "core::ops::RangeInclusive<u32>": "core::ops::RangeInclusive<u32>", "bool": "bool", "Option<bool>": "Option<bool>"}


def mk_params(needed, zero, internal_kind, bound_style, defaults, const_first=False):
    """needed: ordered set of param names among A B I Q N."""
    ps = []
    for n in (["N", "A", "B", "I", "Q"] if const_first else ["A", "B", "I", "Q", "N"]):
        if n not in needed:
            continue
        if n in ("A", "B"):
            b = "ZeroCopy" if zero else (None if bound_style == "none" else "Clone")
            ps.append(Param(n, "field", bound=b, where=(bound_style == "where" and b is not None), default=("Vec<u32>" if (defaults and not zero and n == "A") else None)))
        elif n == "I":
            ps.append(Param("I", "internal", bound=("ZeroCopy" if internal_kind == "zero" else "DeepCopy + 'static"), where=(bound_style == "where")))
        elif n == "Q":
            ps.append(Param("Q", "phantom", bound=("ZeroCopy" if zero else None)))
        else:
            ps.append(Param("N", "const", default=("2" if defaults else None)))
    # defaulted params must trail: only give defaults when every later param has one too
    seen_nodefault = False
    for p in reversed(ps):
        if p.default is None:
            seen_nodefault = True
        elif seen_nodefault:
            p.default = None
    return ps


def needed_of(classes, table):
    out = []
    for c in classes:
        for n in table[c][1]:
            if n not in out:
                out.append(n)
    return out


def enum_structs(tier):
    """yield (id, Def)"""
    maxf = 3 if tier == "thorough" else 2
    deep_cls = list(DEEP_CLASSES) if tier == "thorough" else ["prim", "zstruct", "dseq", "string", "zst", "pA", "pB", "vI", "oI", "nI", "cfI", "g2I", "ph", "cN"]
    zero_cls = list(ZERO_CLASSES) if tier == "thorough" else ["u8", "u64", "zstruct", "zst", "arr", "pA", "ph", "cN"]
    out = []
    # unit structs
    for attrs, tag in [((), "none"), (("deep_copy",), "deep"), (D.ZC, "zero"), (("repr(C)", "repr(align(16))", "zero_copy"), "zero16")]:
        out.append((f"s.unit.{tag}", D.S("X", [], attrs, style="unit")))
    for nf in range(1, maxf + 1):
        for style in ("named", "tuple"):
            combos = itertools.product(deep_cls, repeat=nf) if (nf < 3) else [c for c in itertools.product(deep_cls, repeat=3) if len(set(c)) == 3 and c == tuple(sorted(c))]
            for classes in combos:
                if classes.count("pA") > 1 and False:
                    continue
                need = needed_of(classes, DEEP_CLASSES)
                # a parameter is used either as a field type or inside other types: A/B only as field types, I only inside
                kinds = ["zero", "deep"] if "I" in need else ["-"]
                if any(c in ZERO_ONLY_I for c in classes):
                    kinds = ["zero"]
                    if "nI" in classes:
                        continue
                elif "nI" in classes:
                    kinds = ["deep"] if "I" in need else kinds  # G1<I> is deep-copy: Vec<G1<I>> not involved, any I works; keep one
                for ik in kinds:
                    attr_sets = [((), "none")] if nf > 1 else [((), "none"), (("deep_copy",), "deepattr"), (("repr(C)",), "reprc")]
                    for attrs, atag in attr_sets:
                        fields = [((f"f{i}" if style == "named" else str(i)), DEEP_CLASSES[c][0]) for i, c in enumerate(classes)]
                        ps = mk_params(need, False, ik, "none", False)
                        out.append((f"s.{style}.{'+'.join(classes)}.deep.{atag}.{ik}", D.S("X", fields, attrs, ps, style)))
            zcombos = itertools.product(zero_cls, repeat=nf) if nf < 3 else [c for c in itertools.product(zero_cls, repeat=3) if len(set(c)) == 3 and c == tuple(sorted(c))]
            for classes in zcombos:
                need = needed_of(classes, ZERO_CLASSES)
                aligns = [None] if nf > 1 else [None, 2, 16, 64]
                for al in aligns:
                    attrs = ("repr(C)", "zero_copy") if al is None else ("repr(C)", f"repr(align({al}))", "zero_copy")
                    fields = [((f"f{i}" if style == "named" else str(i)), ZERO_CLASSES[c][0]) for i, c in enumerate(classes)]
                    ps = mk_params(need, True, "-", "inline", False)
                    out.append((f"s.{style}.{'+'.join(classes)}.zero.a{al or 0}", D.S("X", fields, attrs, ps, style)))
    # bounds / where-clauses / defaults on a fixed two-field shape
    for kind in ("struct", "enum"):
        for classes in [("pA", "prim"), ("pA", "vI"), ("pA", "pB"), ("cN", "pA")]:
            need = needed_of(classes, DEEP_CLASSES)
            for bstyle in ("none", "inline", "where", "both", "where2"):
                for dflt in (False, True):
                    ps = mk_params(need, False, "deep", "inline" if bstyle == "both" else ("where" if bstyle == "where2" else bstyle), dflt)
                    fields = [(f"f{i}", DEEP_CLASSES[c][0]) for i, c in enumerate(classes)]
                    extra_where = None
                    if bstyle in ("both", "where2"):
                        extra_where = "A: core::fmt::Debug"
                    if kind == "struct":
                        d = D.S("X", fields, (), ps)
                    else:
                        d = D.E("X", [Variant("U", "unit", []), Variant("T", "tuple", [(str(i), t) for i, (_, t) in enumerate(fields)])], (), ps)
                    d.extra_where = extra_where
                    out.append((f"b.{kind}.{'+'.join(classes)}.{bstyle}.{'dflt' if dflt else 'nodflt'}", d))
    # the internal parameter inside non-path types, in the quick tier too
    if tier != "thorough":
        for x in NONPATH_I:
            for classes in [(x,), ("prim", x), (x, "pA")]:
                need = needed_of(classes, DEEP_CLASSES)
                for ik in (["zero"] if x in ZERO_ONLY_I else ["zero", "deep"]):
                    ps = mk_params(need, False, ik, "none", False)
                    for style in ("named", "tuple"):
                        fields = [((f"f{i}" if style == "named" else str(i)), DEEP_CLASSES[c][0]) for i, c in enumerate(classes)]
                        out.append((f"s.{style}.{'+'.join(classes)}.deep.none.{ik}", D.S("X", fields, (), ps, style)))
                    fields = [(str(i), DEEP_CLASSES[c][0]) for i, c in enumerate(classes)]
                    out.append((f"k.enum.{'+'.join(classes)}.deep.{ik}.nonpath", D.E("X", [Variant("U", "unit", []), Variant("T", "tuple", fields), Variant("N", "named", [(f"x{i}", t) for i, (_, t) in enumerate(fields)])], (), ps)))
    # const parameter declared BEFORE the type parameters
    for kind in ("struct", "enum"):
        for zero in (False, True):
            for classes in [("cN", "pA"), ("pA", "cN"), ("cN", "prim")]:
                table = ZERO_CLASSES if zero else DEEP_CLASSES
                need = needed_of(classes, table)
                ps = mk_params(need, zero, "deep", "inline" if zero else "none", False, const_first=True)
                fields = [(f"f{i}", table[c][0]) for i, c in enumerate(classes)]
                attrs = D.ZC if zero else ()
                if kind == "struct":
                    d = D.S("X", fields, attrs, ps)
                else:
                    d = D.E("X", [Variant("U", "unit", []), Variant("T", "tuple", [(str(i), t) for i, (_, t) in enumerate(fields)])], attrs, ps)
                out.append((f"k.{kind}.{'+'.join(classes)}.{'zero' if zero else 'deep'}.constfirst", d))
    # raw identifiers
    out.append(("s.named.raw", D.S("X", [("r#type", "u8"), ("r#match", "A")], (), [Param("A", "field")])))
    return out


VSHAPES = ["unit", "t1", "t2", "n1", "n2"]


def enum_enums(tier):
    out = []
    maxv = 3 if tier == "thorough" else 2
    deep_rot = ["prim", "pA", "dseq", "string", "vI", "zstruct", "option", "pB", "cN", "oI", "zst", "ph"]
    zero_rot = ["u8", "u64", "zstruct", "pA", "arr", "zst", "cN", "f64"]
    for nv in range(1, maxv + 1):
        for shapes in itertools.product(VSHAPES, repeat=nv):
            for zero in (False, True):
                rot = zero_rot if zero else deep_rot
                table = ZERO_CLASSES if zero else DEEP_CLASSES
                k = (hash_shapes(shapes)) % len(rot)
                variants, used = [], []
                for vi, sh in enumerate(shapes):
                    nf = 0 if sh == "unit" else int(sh[1])
                    fs = []
                    for j in range(nf):
                        c = rot[k % len(rot)]
                        k += 1
                        used.append(c)
                        fs.append(((f"x{j}" if sh[0] == "n" else str(j)), table[c][0]))
                    variants.append(Variant(f"V{vi}", "unit" if sh == "unit" else ("tuple" if sh[0] == "t" else "named"), fs))
                need = needed_of(used, table)
                ps = mk_params(need, zero, "deep", "none" if not zero else "inline", False)
                attrs = D.ZC if zero else ()
                out.append((f"e.{'-'.join(shapes)}.{'zero' if zero else 'deep'}", D.E("X", variants, attrs, ps)))
    return out


def hash_shapes(shapes):
    h = 0
    for s in shapes:
        h = h * 5 + VSHAPES.index(s)
    return h + len(shapes)


def instantiations(d, tier):
    """[(type expr, eps expr)] for a definition named X."""
    fps = d.field_param_names()
    choices = []
    for p in d.params:
        if p.kind == "const":
            choices.append([("2", "2")] if tier == "quick" else [("0", "0"), ("3", "3")])
        elif p.kind == "phantom":
            choices.append([("u8", "u8")])
        elif p.kind == "internal":
            zero = p.bound and "ZeroCopy" in p.bound
            choices.append([("u16", "u16")] if zero else [("String", "String")])
        else:
            if d.zero:
                choices.append([("u32", "u32")] if tier == "quick" else [("u32", "u32"), ("P1", "P1"), ("(u16, u16)", "(u16, u16)")])
            else:
                # (a range that is written field by field plus a trailing flag, and one-byte values:
                # what follows them in the stream is read at the right place only if their
                # ε-copy readers consume exactly what was written)
                args = ["Vec<u32>", "String", "core::ops::RangeInclusive<u32>", "bool"] if tier == "quick" else ["Vec<u32>", "String", "Vec<String>", "P1", "Option<Vec<u64>>", "u64", "core::ops::RangeInclusive<u32>", "bool", "Option<bool>"]
                choices.append([(a, EPS[a] if p.name in fps else a) for a in args])
    out = []
    prod = list(itertools.product(*choices)) if choices else [()]
    if len(prod) > 4:
        # cover every argument of every parameter at least once (star), not the full product
        base = [c[0] for c in choices]
        star = [tuple(base)]
        for i, c in enumerate(choices):
            for v in c[1:]:
                b = list(base)
                b[i] = v
                star.append(tuple(b))
        prod = star
    for combo in prod:
        g = "<" + ", ".join(a for a, _ in combo) + ">" if combo else ""
        ge = "<" + ", ".join(e for _, e in combo) + ">" if combo else ""
        ty = "X" + g
        eps = f"&'a {ty}" if d.zero else "X" + ge
        out.append((ty, eps))
    return out


HEAD = """#![allow(dead_code, unused_imports, unused_variables, non_camel_case_types, non_snake_case)]
use core::marker::PhantomData;
use epserde::prelude::*;
use udefs::{P1, D1, G1, G2, EU};
use core::ops::ControlFlow;
use vcore::model::*;
#[global_allocator]
static ALLOC: vcore::env::Tracking = vcore::env::Tracking;
"""


def module_source(idx, did, d, tier):
    insts = instantiations(d, tier)
    s = f"pub mod m{idx} {{\n    use super::*;\n"
    s += "    " + d.item().replace("\n", "\n    ") + "\n"
    s += "    " + d.dom_impl().replace("\n", "\n    ") + "\n"
    s += "    " + d.eps_impl().replace("\n", "\n    ") + "\n"
    s += "    pub fn register(v: &mut Vec<(String, vcore::Entry)>) {\n"
    for ty, eps in insts:
        s += f"        v.push(({json.dumps(did)}.to_string(), vcore::entry::<{ty}>({json.dumps(ty)})));\n"
    s += "    }\n"
    for k, (ty, eps) in enumerate(insts):
        s += f"    fn _eps{k}<'a>(b: &'a [u8]) -> epserde::deser::Result<{eps}> {{ <{ty} as epserde::deser::Deserialize>::deserialize_eps(b) }}\n"
    s += "}\n"
    return s


MAIN = """
fn main() {
    vcore::env::install_panic_hook();
    let mut v: Vec<(String, vcore::Entry)> = Vec::new();
%s
    for check in ["C01", "C02", "C03", "C06", "C07"] {
        let mut cx = vcore::cx::Cx::new(check, vcore::cx::Tier::Quick);
        for (did, e) in &v {
            cx.type_id = format!("{}::{}", did, e.id);
            if let Err(p) = vcore::env::guarded(|| vcore::run_check(e.ops.as_ref(), check, &mut cx)) { cx.machinery_error(format!("checker panicked: {}", p)); }
            println!("{}", cx.flush_type());
        }
    }
}
"""


def batch_source(items, tier):
    src = HEAD
    regs = ""
    for idx, (did, d) in enumerate(items):
        src += module_source(idx, did, d, tier)
        regs += f"    m{idx}::register(&mut v);\n"
    return src + MAIN % regs


def main():
    tier = sys.argv[1] if len(sys.argv) > 1 else "quick"
    t0 = time.time()
    ext = P.build_libs()
    if ext is None:
        if P.curated_defs_do_not_compile():
            # the derive output for curated definitions of the supported grammar is rejected by
            # rustc although the library builds: that is the property failing, not the machinery
            errs = [l for l in P.LAST_BUILD_ERR.splitlines() if l.startswith("error[E")]
            blocks = P.LAST_BUILD_ERR.split("\n\n")
            cov = {"evaluations": len(D.curated()), "distinct_nontrivial": len(D.curated()), "transitions": max(len(errs), 1), "exhaustive": True,
                   "rule": "the curated definitions (harness/udefs, generated from gen/defs.py) are compiled first; this run stopped there because rustc rejects the code derived for some of them",
                   "samples": [b[:800] for b in blocks if b.startswith("error[E")][:4], "programs": len(D.curated()), "outcomes": {"curated-definitions-do-not-compile": len(errs)}}
            viol = [("C05|udefs|curated-definitions-do-not-compile", {"errors": errs[:20], "observed": P.LAST_BUILD_ERR[:4000]})]
            ev, code = P.finish("C05", tier, "exploration", cov, viol, t0, ["curated definitions as in gen/defs.py"])
            P.write_evidence("C05", ev)
            sys.exit(code)
        sys.exit(2)
    defs = enum_structs(tier) + enum_enums(tier)
    ids = [d for d, _ in defs]
    assert len(ids) == len(set(ids)), "duplicate definition ids"
    B = 12
    batches = [defs[i:i + B] for i in range(0, len(defs), B)]
    externs = ("epserde", "vcore", "udefs", "serde_json")
    res = P.run_all(ext, [(f"batch{k}", batch_source(b, tier)) for k, b in enumerate(batches)], externs=externs, run=True)
    violations, outcomes, samples = [], {}, []
    evals = transitions = ninst = 0
    machinery = []
    singles = []
    for b, r in zip(batches, res):
        if not r["compiled"] or r.get("exit") != 0:
            # does not compile, or the subject killed the probe process (abort, runaway
            # allocation, segfault): rerun one definition at a time to name the offender
            singles.extend(b)
            r["compiled"] = False
        else:
            absorb(r, violations, outcomes)
    # failing batches: one definition at a time
    res1 = P.run_all(ext, [(f"single{k}", batch_source([it], tier)) for k, it in enumerate(singles)], externs=externs, run=True)
    for (did, d), r in zip(singles, res1):
        if not r["compiled"]:
            outcomes["does-not-compile"] = outcomes.get("does-not-compile", 0) + 1
            first = [l for l in r["stderr"].splitlines() if "error" in l][:3]
            violations.append((f"C05|{did}|does-not-compile", {"definition_id": did, "definition": d.item(), "errors": r["errors"], "observed": " | ".join(x.split(": ", 1)[-1][:200] for x in first)}))
        elif r.get("exit") != 0:
            outcomes["probe-process-died"] = outcomes.get("probe-process-died", 0) + 1
            absorb(r, violations, outcomes)
            violations.append((f"C05|{did}|probe-process-died", {"definition_id": did, "definition": d.item(), "observed": f"the process exploring this definition died (exit {r.get('exit')}): {r.get('run_stderr', '')[-300:]}"}))
            r["compiled"] = False
        else:
            absorb(r, violations, outcomes)
    for r in res + res1:
        if r["compiled"]:
            if r.get("exit") != 0:
                machinery.append(f"probe {r['id']} exited {r.get('exit')}: {r.get('run_stderr', '')[-300:]}")
            for l in r.get("stdout", "").splitlines():
                try:
                    v = json.loads(l)
                except Exception:
                    continue
                evals += v["evals"]
                transitions += v["transitions"]
                if v.get("machinery"):
                    machinery.extend(v["machinery"])
                if v["samples"] and len(samples) < 4 and "C02" in json.dumps(v["viols"]) + "C02" and v["type_id"].count("pA") and len(samples) < 4:
                    samples.append({"definition_and_instantiation": v["type_id"], "sample": v["samples"][0]})
                ninst += 1
    for did, d in defs[:2]:
        samples.append({"definition_id": did, "definition": d.item().strip()})
    cov = {"evaluations": evals + len(defs), "distinct_nontrivial": len(defs), "transitions": transitions,
           "rule": "every definition of the grammar enumeration (struct styles x field-type classes up to the arity bound x attributes x parameter kinds; bounds/where/defaults family; enums over all variant-shape sequences) compiled with rustc and every instantiation run through the C01/C02/C03/C06/C07 oracles; distinct = distinct definition ids",
           "samples": samples, "exhaustive": True, "definitions": len(defs), "batches": len(batches), "recompiled_individually": len(singles),
           "instantiation_check_runs": ninst, "outcomes": outcomes, "programs": len(defs)}
    ev, code = P.finish("C05", tier, "exploration", cov, violations, t0, ["grammar bounds as in gen/c05.py (a parameter is used either as a field type or only inside other types)", "value domains as in DESIGN 2.2, cap 24"])
    P.write_evidence("C05", ev)
    sys.stderr.write(f"C05 {tier}: definitions={len(defs)} instantiation-runs={ninst} evaluations={evals} outcomes={outcomes} violations={ev['violations']} wall={ev['wall_s']:.1f}s\n")
    if machinery:
        for m in machinery[:10]:
            sys.stderr.write("MACHINERY: " + str(m) + "\n")
        sys.exit(2)
    sys.exit(code)


def absorb(r, violations, outcomes):
    for l in r.get("stdout", "").splitlines():
        try:
            v = json.loads(l)
        except Exception:
            continue
        did = v["type_id"].split("::")[0]
        if not v["viols"]:
            outcomes["instantiation-check-ok"] = outcomes.get("instantiation-check-ok", 0) + 1
        for x in v["viols"]:
            cls = x["key"].split("|", 2)[2]
            chk = x["key"].split("|")[0]
            outcomes["instantiation-check-violation"] = outcomes.get("instantiation-check-violation", 0) + 1
            violations.append((f"C05|{v['type_id']}|{chk}:{cls}", x["detail"]))


if __name__ == "__main__":
    main()
