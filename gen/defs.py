"""DSL for derived (user) type definitions and their Rust emission.

A definition knows, independently of the derive macro, everything the documented rules need:
field names/order, which fields are typed by a parameter (=> ε-copied), copy kind, reprs,
const parameters. From that it emits the Rust item, the `Dom` impl (model term, value
enumeration, value abstraction, scaling) and the `EpsView` impl for the ε-copy type.
"""

from dataclasses import dataclass, field
from typing import List, Optional, Tuple


@dataclass
class Param:
    name: str
    kind: str  # 'field' (type of some field), 'internal' (inside other types), 'phantom', 'const'
    bound: Optional[str] = None  # e.g. "Clone", "DeepCopy + 'static", "ZeroCopy"
    where: bool = False  # write the bound as a where-clause instead of inline
    default: Optional[str] = None


@dataclass
class Variant:
    name: str
    style: str  # 'named' | 'tuple' | 'unit'
    fields: List[Tuple[str, str]]  # (name or index, type expression)
    disc: Optional[str] = None  # explicit discriminant of a unit variant


@dataclass
class Def:
    name: str
    kind: str  # 'struct' | 'enum'
    attrs: List[str]  # in source order: 'repr(C)', 'zero_copy', 'deep_copy', 'repr(align(16))'
    params: List[Param]
    variants: List[Variant]
    derives: str = "Epserde, Clone, Debug"
    extra_where: Optional[str] = None  # an additional where predicate on a field parameter

    @property
    def zero(self):
        return "zero_copy" in self.attrs

    def reprs(self):
        # as TokenStream::to_string() renders the attribute arguments
        out = []
        for a in self.attrs:
            if a.startswith("repr(") and a.endswith(")"):
                inner = a[5:-1]
                out.append(inner)
        return out

    def type_params(self):
        return [p for p in self.params if p.kind != "const"]

    def field_param_names(self):
        """Parameters that are the whole type of some field."""
        names = set()
        for v in self.variants:
            for _, t in v.fields:
                for p in self.params:
                    if p.kind != "const" and t.strip() == p.name:
                        names.add(p.name)
        return names

    # ------------------------------------------------------------------ Rust item
    def generics_decl(self, with_defaults=True):
        parts = []
        for p in self.params:
            if p.kind == "const":
                s = f"const {p.name}: usize"
                if with_defaults and p.default is not None:
                    s += f" = {p.default}"
            else:
                s = p.name
                if p.bound and not p.where:
                    s += f": {p.bound}"
                if with_defaults and p.default is not None:
                    s += f" = {p.default}"
            parts.append(s)
        return f"<{', '.join(parts)}>" if parts else ""

    def where_decl(self):
        ws = [f"{p.name}: {p.bound}" for p in self.params if p.kind != "const" and p.bound and p.where]
        if self.extra_where:
            ws.append(self.extra_where)
        return (" where " + ", ".join(ws)) if ws else ""

    def item(self):
        attrs = "".join(f"#[{a}]\n" for a in self.attrs)
        d = self.derives + (", Copy" if self.zero else "")
        head = f"#[derive({d})]\n{attrs}pub {self.kind} {self.name}{self.generics_decl()}"
        if self.kind == "struct":
            v = self.variants[0]
            if v.style == "named":
                body = "{ " + ", ".join(f"pub {n}: {t}" for n, t in v.fields) + " }"
                return f"{head}{self.where_decl()} {body}\n"
            if v.style == "tuple":
                body = "(" + ", ".join(f"pub {t}" for _, t in v.fields) + ")"
                return f"{head}{body}{self.where_decl()};\n"
            return f"{head}{self.where_decl()};\n"
        vs = []
        for v in self.variants:
            if v.style == "unit":
                vs.append(v.name + (f" = {v.disc}" if v.disc else ""))
            elif v.style == "tuple":
                vs.append(f"{v.name}(" + ", ".join(t for _, t in v.fields) + ")")
            else:
                vs.append(f"{v.name} {{ " + ", ".join(f"{n}: {t}" for n, t in v.fields) + " }")
        return f"{head}{self.where_decl()} {{ " + ", ".join(vs) + " }\n"

    # ------------------------------------------------------------------ impls
    def _impl_generics(self, base_bound, extra=lambda p: ""):
        parts = []
        for p in self.params:
            if p.kind == "const":
                parts.append(f"const {p.name}: usize")
            elif p.kind == "phantom":
                b = "vcore::dom::PhTy + Clone + core::fmt::Debug"
                if p.bound:
                    b += " + " + p.bound
                parts.append(f"{p.name}: {b}")
            else:
                b = base_bound
                if p.bound:
                    b += " + " + p.bound
                if self.extra_where and self.extra_where.startswith(p.name + ":"):
                    b += " + " + self.extra_where.split(":", 1)[1].strip()
                b += extra(p)
                parts.append(f"{p.name}: {b}")
        return f"<{', '.join(parts)}>" if parts else ""

    def _self_ty(self):
        names = [p.name for p in self.params]
        return self.name + (f"<{', '.join(names)}>" if names else "")

    def _field_tys(self):
        seen = []
        for v in self.variants:
            for _, t in v.fields:
                if t not in seen:
                    seen.append(t)
        return seen

    def dom_impl(self):
        fps = self.field_param_names()
        g = self._impl_generics("vcore::dom::Dom")
        st = self._self_ty()
        wh = [f"{t}: vcore::dom::Dom" for t in self._field_tys()]
        where = (" where " + ", ".join(wh)) if wh else ""
        consts = ", ".join(f'("{p.name}".to_string(), {p.name})' for p in self.params if p.kind == "const")
        reprs = ", ".join(f'"{r}".to_string()' for r in self.reprs())
        vts = []
        for v in self.variants:
            fs = []
            for n, t in v.fields:
                isp = "true" if t.strip() in fps else "false"
                fs.append(f'Field {{ name: "{n}".to_string(), ty: <{t} as vcore::dom::Dom>::ty(), is_param: {isp} }}')
            style = {"named": "Named", "tuple": "Tuple", "unit": "Unit"}[v.style]
            vts.append(f'Variant {{ name: "{v.name}".to_string(), style: VStyle::{style}, fields: vec![{", ".join(fs)}], disc: {("Some(" + v.disc + ")") if v.disc else "None"} }}')
        is_enum = "true" if self.kind == "enum" else "false"
        zero = "true" if self.zero else "false"
        out = [f"impl{g} vcore::dom::Dom for {st}{where} {{"]
        out.append(
            f'    fn ty() -> Ty {{ Ty::Adt(std::rc::Rc::new(Adt {{ name: "{self.name}".to_string(), is_enum: {is_enum}, zero: {zero}, '
            f"reprs: vec![{reprs}], consts: vec![{consts}], variants: vec![{', '.join(vts)}] }})) }}"
        )
        # values
        out.append("    fn values(cx: &mut vcore::dom::ValCx) -> Vec<Self> {")
        out.append("        let mut out = Vec::new();")
        for v in self.variants:
            ctor = self._ctor(v, lambda i, n, t: f"c{i}[ix[{i}]].clone()")
            if not v.fields:
                out.append(f"        out.push({ctor});")
                continue
            for i, (n, t) in enumerate(v.fields):
                out.append(f"        let c{i} = <{t} as vcore::dom::Dom>::values(cx);")
            lens = ", ".join(f"(0..c{i}.len()).collect::<Vec<usize>>()" for i in range(len(v.fields)))
            out.append(f"        for ix in vcore::dom::product(&[{lens}], cx) {{ out.push({ctor}); }}")
        out.append("        out")
        out.append("    }")
        # to_val / scale / owned
        out.append("    fn to_val(&self) -> Val {")
        out.append(self._match(lambda v, i: self._valexpr(v, i, "vcore::dom::Dom::to_val")))
        out.append("    }")
        out.append("    fn scale(&self, k: usize) -> Self {")
        out.append(self._match(lambda v, i: self._ctor(v, lambda j, n, t: (f"vcore::dom::Dom::scale({self._b(v, j, n)}, k)" if t.strip() in fps else f"Clone::clone({self._b(v, j, n)})"))))
        out.append("    }")
        out.append("    fn owned(&self, out: &mut Vec<(usize, usize)>) {")
        out.append(self._match(lambda v, i: "{ " + " ".join(f"vcore::dom::Dom::owned({self._b(v, j, n)}, out);" for j, (n, t) in enumerate(v.fields)) + " }"))
        out.append("    }")
        out.append("}")
        return "\n".join(out) + "\n"

    def eps_impl(self):
        """EpsView for the ε-copy type of a deep-copy item (all type parameters are views)."""
        if self.zero:
            # references are covered by the blanket impl for &T; by-value occurrences (a
            # zero-copy item as a non-parameter field of a deep-copy item) view through Dom
            g = self._impl_generics("vcore::dom::Dom")
            st = self._self_ty()
            wh = [f"{t}: vcore::dom::Dom" for t in self._field_tys()]
            where = (" where " + ", ".join(wh)) if wh else ""
            return (f"impl{g} vcore::dom::EpsView for {st}{where} {{\n"
                    "    fn eps_val(&self) -> Val { vcore::dom::Dom::to_val(self) }\n"
                    "    fn spans(&self, _out: &mut Vec<vcore::dom::Span>) {}\n}\n")
        g = self._impl_generics("vcore::dom::EpsView")
        # phantom params need no bound for the view
        g = g.replace("vcore::dom::PhTy + Clone + core::fmt::Debug", "'static + Clone + core::fmt::Debug")
        st = self._self_ty()
        wh = [f"{t}: vcore::dom::EpsView" for t in self._field_tys()]
        where = (" where " + ", ".join(wh)) if wh else ""
        out = [f"impl{g} vcore::dom::EpsView for {st}{where} {{"]
        out.append("    fn eps_val(&self) -> Val {")
        out.append(self._match(lambda v, i: self._valexpr(v, i, "vcore::dom::EpsView::eps_val")))
        out.append("    }")
        out.append("    fn spans(&self, out: &mut Vec<vcore::dom::Span>) {")
        out.append(self._match(lambda v, i: "{ " + " ".join(f"vcore::dom::EpsView::spans({self._b(v, j, n)}, out);" for j, (n, t) in enumerate(v.fields)) + " }"))
        out.append("    }")
        out.append("    fn eps_owned(&self, out: &mut Vec<(usize, usize)>) {")
        out.append(self._match(lambda v, i: "{ " + " ".join(f"vcore::dom::EpsView::eps_owned({self._b(v, j, n)}, out);" for j, (n, t) in enumerate(v.fields)) + " }"))
        out.append("    }")
        out.append("}")
        return "\n".join(out) + "\n"

    # helpers ---------------------------------------------------------------
    def _b(self, v, j, n):
        """Expression for a reference to field j inside a match arm / struct access."""
        if self.kind == "struct":
            return f"&self.{n}"
        return f"f{j}"

    def _pat(self, v):
        if self.kind == "struct":
            return None
        if v.style == "unit":
            return f"Self::{v.name}"
        if v.style == "tuple":
            return f"Self::{v.name}(" + ", ".join(f"f{j}" for j in range(len(v.fields))) + ")"
        return f"Self::{v.name} {{ " + ", ".join(f"{n}: f{j}" for j, (n, _) in enumerate(v.fields)) + " }"

    def _match(self, arm):
        if self.kind == "struct":
            return "        " + arm(self.variants[0], 0)
        lines = ["        match self {"]
        for i, v in enumerate(self.variants):
            lines.append(f"            {self._pat(v)} => {arm(v, i)},")
        lines.append("        }")
        return "\n".join(lines)

    def _valexpr(self, v, i, fn):
        items = ", ".join(f"{fn}({self._b(v, j, n)})" for j, (n, t) in enumerate(v.fields))
        if self.kind == "struct":
            return f"Val::Struct(vec![{items}])"
        return f"Val::Variant({i}, vec![{items}])"

    def _ctor(self, v, fexpr):
        path = self.name if self.kind == "struct" else f"{self.name}::{v.name}"
        if v.style == "unit":
            return path
        if v.style == "tuple":
            return f"{path}(" + ", ".join(fexpr(j, n, t) for j, (n, t) in enumerate(v.fields)) + ")"
        return f"{path} {{ " + ", ".join(f"{n}: {fexpr(j, n, t)}" for j, (n, t) in enumerate(v.fields)) + " }"


def S(name, fields, attrs=(), params=(), style="named"):
    return Def(name, "struct", list(attrs), list(params), [Variant(name, style, list(fields))])


def E(name, variants, attrs=(), params=()):
    return Def(name, "enum", list(attrs), list(params), list(variants))


ZC = ("repr(C)", "zero_copy")


def curated():
    """Derived items used as leaves / constructors of the main universe."""
    P = Param
    V = Variant
    return [
        S("P1", [("a", "u8"), ("b", "u32")], ZC),
        S("Z0", [], ZC, style="unit"),
        S("Z16", [], ("repr(C)", "repr(align(16))", "zero_copy"), style="unit"),
        S("P64", [("x", "u16")], ("repr(C)", "repr(align(64))", "zero_copy")),
        S("NT", [("0", "u64")], ZC, style="tuple"),
        S("T3", [("0", "u8"), ("1", "u8"), ("2", "u8")], ZC, style="tuple"),
        S("ZA", [("tag", "u8"), ("arr", "[u16; 2]"), ("val", "u32")], ZC),
        S("ZB", [("a", "u8"), ("t", "(u16, u16)"), ("c", "u64"), ("e", "EU"), ("z", "u8")], ZC),
        S("ZR", [("a", "u16"), ("r", "RangeTo<u32>"), ("arr", "[P1; 2]"), ("b", "u8")], ZC),
        S("ZT3", [("a", "u8"), ("r", "RangeTo<T3>")], ZC),
        S("NT16", [("0", "u64")], ("repr(C)", "repr(align(16))", "zero_copy"), style="tuple"),
        E("EW12", [V("W", "tuple", [(str(i), t) for i, t in enumerate(["u8", "u16", "u32", "u64", "i8", "i16", "i32", "i64", "u8", "u16", "u32", "u64"])]), V("N", "unit", [])]),
        S("ZN", [("p", "P1"), ("t", "T3"), ("f", "f64"), ("arr", "[u16; 3]"), ("ph", "PhantomData<u8>")], ZC),
        E("EZ", [V("A", "unit", []), V("B", "tuple", [("0", "u16")]), V("C", "named", [("x", "u8"), ("y", "u64")])], ZC),
        E("EU", [V("North", "unit", []), V("South", "unit", []), V("East", "unit", [])], ZC),
        # zero-copy enums whose fields are all narrower than the C tag, and an over-aligned one
        E("EZS", [V("A", "tuple", [("0", "u8")]), V("B", "tuple", [("0", "u8"), ("1", "u8")]), V("C", "unit", [])], ZC),
        E("EZ16", [V("A", "unit", []), V("B", "tuple", [("0", "u8")]), V("C", "named", [("x", "u16"), ("y", "u32")])], ("repr(C)", "repr(align(16))", "zero_copy")),
        # a deep-copy enum that is zero-sized in memory and still written with a tag
        E("EO", [V("Only", "unit", [])]),
        E("ED", [V("Low", "unit", [], "1"), V("Mid", "unit", [], "2"), V("High", "unit", [], "4")]),
        E("EDZ", [V("Low", "unit", [], "1"), V("Mid", "unit", [], "2"), V("High", "unit", [], "4")], ZC),
        E("EDM", [V("A", "unit", [], "3"), V("B", "unit", []), V("C", "unit", [], "10"), V("D", "unit", [])], ZC),
        S("D1", [("id", "u32"), ("name", "String"), ("data", "Vec<u16>")]),
        S("D1Z", [("data", "[u8; 4]")], ("deep_copy",)),
        S("DN", [("0", "P1")], ("deep_copy",), style="tuple"),
        S("DV", [("0", "Vec<u64>")], style="tuple"),
        S("DT", [("0", "u8"), ("1", "Vec<u64>"), ("2", "Option<String>")], style="tuple"),
        S("DU", [], ("deep_copy",), style="unit"),
        S("DZ", [("a", "u16"), ("b", "u64")], ("deep_copy",)),
        S("RAW", [("r#type", "u8"), ("r#match", "Vec<u8>")]),
        E("E1", [V("U", "unit", []), V("T", "tuple", [("0", "u8"), ("1", "String")]), V("S", "named", [("x", "u64"), ("v", "Vec<u8>")])]),
        E("E2", [V("Only", "named", [("p", "P1"), ("e", "E1")])]),
        S("N1", [("g", "G1<Vec<u8>>"), ("e", "E1"), ("z", "P1")]),
        S("G1", [("id", "isize"), ("data", "A")], params=[P("A", "field")]),
        S("G2", [("a", "A"), ("n", "u8"), ("b", "B")], params=[P("A", "field"), P("B", "field")]),
        S("W", [("a", "A"), ("b", "u8")], params=[P("A", "field")]),
        S("GT", [("0", "A"), ("1", "u16")], params=[P("A", "field")], style="tuple"),
        S("GB", [("a", "A"), ("s", "String")], params=[P("A", "field", bound="Clone")]),
        S("GI", [("0", "Vec<I>")], params=[P("I", "internal", bound="DeepCopy + 'static")], style="tuple"),
        S("GZI", [("v", "Vec<I>"), ("arr", "[I; 2]"), ("o", "Option<I>")], params=[P("I", "internal", bound="ZeroCopy")]),
        S("GP", [("a", "A"), ("p", "PhantomData<Q>")], params=[P("A", "field"), P("Q", "phantom")]),
        S("GC", [("arr", "[u16; N]"), ("tail", "u8")], params=[P("N", "const")]),
        S("ZCN", [("arr", "[u32; N]"), ("t", "u8")], ZC, params=[P("N", "const")]),
        # two const parameters (their values and names enter the type hash in a published order)
        S("GC2", [("a", "[u8; N]"), ("b", "[u16; M]")], params=[P("N", "const"), P("M", "const")]),
        S("ZC2", [("a", "[u8; N]"), ("b", "[u16; M]")], ZC, params=[P("N", "const"), P("M", "const")]),
        S("ZG", [("a", "A"), ("b", "u8")], ZC, params=[P("A", "field", bound="ZeroCopy")]),
        S("GD", [("a", "A"), ("n", "[u8; N]")], params=[P("A", "field", default="Vec<u8>"), P("N", "const", default="2")]),
        S("GN", [("inner", "G1<A>"), ("x", "u8")], params=[P("A", "internal")]),
        E("GE", [V("N", "unit", []), V("One", "tuple", [("0", "A")]), V("Two", "named", [("a", "A"), ("b", "B")])],
          params=[P("A", "field"), P("B", "field", default="Vec<u8>")]),
        E("GEI", [V("V", "tuple", [("0", "Vec<I>")]), V("O", "named", [("o", "Option<I>"), ("k", "u32")])],
          params=[P("I", "internal", bound="DeepCopy + 'static")]),
        # parameter-typed fields BEFORE fields of other types, in every variant style
        E("GV", [V("P", "tuple", [("0", "A"), ("1", "u64")]), V("Q", "named", [("data", "A"), ("n", "usize")]), V("R", "tuple", [("0", "u8"), ("1", "A"), ("2", "u16")]), V("U", "unit", [])],
          params=[P("A", "field")]),
        S("GPR", [("first", "A"), ("mid", "u32"), ("second", "A")], params=[P("A", "field")]),
        E("GEC", [V("X", "tuple", [("0", "A")]), V("Y", "tuple", [("0", "[u8; N]")])], params=[P("A", "field"), P("N", "const", default="4")]),
        S("GCF", [("arr", "[u16; N]"), ("a", "A")], params=[P("N", "const"), P("A", "field")]),
    ]
